//! Observing the optimiser from outside: `Script` (synthetic state whose score function the harness
//! controls) and `Probe` (logging wrapper around a real state), plus the trace model that infers the
//! accept/reject history from the parameter vectors seen at successive `score()` calls.
//!
//! Stated assumption (C20's wording): one `score()` evaluation before the run, one per proposal, at most one
//! after the last proposal.

use std::cmp::Ordering;
use std::fmt;
use std::sync::{Arc, Mutex};

use packing::traits::{Basis, State, ToSVG};
use packing::{SharedValue, StandardBasis};
use serde::{Serialize, Serializer};
use svg::Document;

#[derive(Clone, Copy, Debug, PartialEq)]
pub enum Expect {
    Accept,
    Reject,
    /// worse move at kT > 0
    Unknown,
}

#[derive(Clone, Debug)]
pub struct Cand {
    pub params: Vec<f64>,
    pub score: f64,
}

#[derive(Clone, Debug)]
pub struct StepRec {
    /// 1-based proposal number
    pub k: usize,
    pub proposal: Vec<f64>,
    pub returned: Option<f64>,
    /// number of candidate current states this proposal can have been derived from (0 = inconsistent)
    pub n_bases: usize,
    /// coordinate changed relative to the base (None: no coordinate changed, or bases disagree)
    pub changed: Option<usize>,
    /// smallest |proposal - base| in the changed coordinate over the candidate bases (never over-reports)
    pub delta_min: f64,
    /// unique base, if resolved
    pub base: Option<Vec<f64>>,
    pub base_score: Option<f64>,
    pub expect: Option<Expect>,
    /// resolved at the next call: Some(true) accepted, Some(false) rejected
    pub outcome: Option<bool>,
    /// the evaluated parameters equal one of the candidate current states bit for bit (a move clamped to no
    /// change, or the final validity evaluation)
    pub maybe_noop: bool,
}

fn differing(a: &[f64], b: &[f64]) -> (usize, Option<usize>) {
    let mut n = 0;
    let mut last = None;
    for i in 0..a.len() {
        if a[i].to_bits() != b[i].to_bits() {
            n += 1;
            last = Some(i);
        }
    }
    (n, last)
}

fn same(a: &[f64], b: &[f64]) -> bool {
    differing(a, b).0 == 0
}

pub fn expectation(returned: Option<f64>, cur: f64, kt_zero: bool) -> Expect {
    match returned {
        None => Expect::Reject,
        Some(s) if s >= cur => Expect::Accept,
        Some(s) if s.is_nan() || cur.is_nan() => {
            let _ = s;
            Expect::Unknown
        }
        Some(_) => {
            if kt_zero {
                Expect::Reject
            } else {
                Expect::Unknown
            }
        }
    }
}

/// Which accept/reject decisions the model allows when it narrows the set of candidate current states.
#[derive(Clone, Copy, Debug, PartialEq)]
pub enum Mode {
    /// exactly the Metropolis rule: better/equal accepted, undefined rejected, worse rejected at kT=0 and either way at kT>0
    Metropolis,
    /// any scored proposal may have been accepted or rejected; an unscored one is rejected
    Agnostic,
    /// what C05 permits at kT=0: a proposal scoring >= the current state may be accepted or rejected, a worse or
    /// unscored one must be rejected (at kT>0 a worse one may go either way)
    Monotone,
}

/// Trace model: the set of parameter vectors the optimiser's current state can be, given everything seen.
pub struct Model {
    /// temperature is zero for the whole run (then worse moves must be rejected)
    pub kt_zero: bool,
    pub mode: Mode,
    pub cands: Vec<Cand>,
    pub steps: Vec<StepRec>,
    pending: Option<(Vec<f64>, Option<f64>, Vec<(Cand, Expect)>)>,
    pub calls: usize,
    /// first step at which no candidate explains the proposal
    pub inconsistency: Option<(usize, String)>,
    pub keep_steps: bool,
    pub initial: Option<Cand>,
    pub finished: bool,
}

pub struct CallInfo {
    pub call: usize,
    /// the optimiser has returned; this call comes from the harness itself
    pub finished: bool,
    /// Some when exactly one candidate current state remains
    pub current: Option<Cand>,
    pub n_cands: usize,
    /// largest current score over the candidates (a score above it is an improvement in every candidate world)
    pub max_score: f64,
}

impl Model {
    pub fn new(kt_zero: bool, use_expectations: bool) -> Model {
        Model::with_mode(kt_zero, if use_expectations { Mode::Metropolis } else { Mode::Agnostic })
    }

    pub fn with_mode(kt_zero: bool, mode: Mode) -> Model {
        Model { kt_zero, mode, cands: vec![], steps: vec![], pending: None, calls: 0, inconsistency: None, keep_steps: true, initial: None, finished: false }
    }

    fn resolve_pending(&mut self) -> Vec<Cand> {
        // candidate current states after the previous step
        let mut out: Vec<Cand> = Vec::new();
        let by_params_only = self.mode == Mode::Agnostic;
        let push = |c: Cand, out: &mut Vec<Cand>| {
            // the decision-agnostic model never uses scores: candidates are distinct by parameters alone
            // (otherwise a run of no-op proposals grows the set by one candidate per step)
            if by_params_only {
                if !out.iter().any(|o| same(&o.params, &c.params)) {
                    out.push(c);
                }
                return;
            }
            // the optimiser's state is (parameters, current score): two candidates with equal parameters but
            // different scores (a move clamped to no change that may or may not have been accepted) are distinct
            if !out.iter().any(|o| same(&o.params, &c.params) && o.score.to_bits() == c.score.to_bits()) {
                out.push(c);
            }
        };
        if let Some((proposal, returned, bases)) = self.pending.take() {
            for (b, e) in bases.into_iter() {
                let e = match self.mode {
                    Mode::Metropolis => e,
                    // a proposal without a score cannot be "the state with the best-known current score" under any rule
                    Mode::Agnostic => {
                        if returned.is_none() {
                            Expect::Reject
                        } else {
                            Expect::Unknown
                        }
                    }
                    Mode::Monotone => match e {
                        Expect::Accept => Expect::Unknown,
                        other => other,
                    },
                };
                match e {
                    Expect::Accept => push(Cand { params: proposal.clone(), score: returned.unwrap() }, &mut out),
                    Expect::Reject => push(b, &mut out),
                    Expect::Unknown => {
                        if let Some(s) = returned {
                            push(Cand { params: proposal.clone(), score: s }, &mut out);
                        }
                        push(b, &mut out);
                    }
                }
            }
        } else {
            out = self.cands.clone();
        }
        out
    }

    pub fn begin_call(&mut self, params: &[f64]) -> CallInfo {
        let call = self.calls;
        if self.finished {
            let current = if self.cands.len() == 1 { Some(self.cands[0].clone()) } else { self.cands.iter().find(|c| same(&c.params, params)).cloned() };
            let max_score = self.cands.iter().map(|c| c.score).fold(f64::NEG_INFINITY, f64::max);
            return CallInfo { call, finished: true, current, n_cands: self.cands.len(), max_score };
        }
        if call == 0 {
            return CallInfo { call, finished: false, current: None, n_cands: 0, max_score: f64::NAN };
        }
        let prev_proposal = self.pending.as_ref().map(|p| p.0.clone());
        let after_prev = self.resolve_pending();
        // which of them can this proposal derive from?
        let bases: Vec<Cand> = after_prev.iter().filter(|c| differing(&c.params, params).0 <= 1).cloned().collect();
        // resolve the previous step's outcome
        if let (Some(pp), Some(last)) = (prev_proposal, self.steps.last_mut()) {
            if !bases.is_empty() {
                let n_acc = bases.iter().filter(|c| same(&c.params, &pp)).count();
                let base_is_proposal = last.base.as_ref().map(|b| same(b, &pp)).unwrap_or(false);
                if !base_is_proposal {
                    if n_acc == bases.len() {
                        last.outcome = Some(true);
                    } else if n_acc == 0 {
                        last.outcome = Some(false);
                    }
                }
            }
        }
        if bases.is_empty() {
            if self.inconsistency.is_none() {
                let best = after_prev.iter().map(|c| differing(&c.params, params).0).min().unwrap_or(0);
                self.inconsistency = Some((
                    call,
                    format!(
                        "proposal #{} = {:?} differs in {} coordinates from every state the optimiser can be in {:?}",
                        call,
                        params,
                        best,
                        after_prev.iter().map(|c| c.params.clone()).collect::<Vec<_>>()
                    ),
                ));
            }
            // resynchronise on the closest candidate so that the run can continue
            let mut all = after_prev;
            all.sort_by_key(|c| differing(&c.params, params).0);
            self.cands = all.into_iter().take(1).collect();
        } else {
            self.cands = bases;
        }
        let current = if self.cands.len() == 1 { Some(self.cands[0].clone()) } else { None };
        let max_score = self.cands.iter().map(|c| c.score).fold(f64::NEG_INFINITY, f64::max);
        CallInfo { call, finished: false, current, n_cands: self.cands.len(), max_score }
    }

    pub fn end_call(&mut self, params: &[f64], returned: Option<f64>) {
        if self.finished {
            return;
        }
        let call = self.calls;
        self.calls += 1;
        if call == 0 {
            let c = Cand { params: params.to_vec(), score: returned.unwrap_or(f64::NAN) };
            self.initial = Some(c.clone());
            self.cands = vec![c];
            return;
        }
        let bases: Vec<(Cand, Expect)> = self.cands.iter().map(|c| (c.clone(), expectation(returned, c.score, self.kt_zero))).collect();
        // step record
        let mut changed: Option<usize> = None;
        let mut changed_consistent = true;
        let mut delta_min = f64::INFINITY;
        let mut maybe_noop = false;
        for (c, _) in bases.iter() {
            let (n, idx) = differing(&c.params, params);
            if n == 1 {
                let i = idx.unwrap();
                if changed.is_some() && changed != Some(i) {
                    changed_consistent = false;
                }
                changed = Some(i);
                let d = (params[i] - c.params[i]).abs();
                if d < delta_min {
                    delta_min = d;
                }
            } else if n == 0 {
                delta_min = 0.;
                maybe_noop = true;
            }
        }
        if !changed_consistent {
            changed = None;
        }
        if !delta_min.is_finite() {
            delta_min = 0.;
        }
        let unique = if bases.len() == 1 { Some(bases[0].clone()) } else { None };
        let n_bases = if self.inconsistency.as_ref().map(|i| i.0 == call).unwrap_or(false) { 0 } else { bases.len() };
        if self.keep_steps {
            self.steps.push(StepRec {
                k: call,
                proposal: params.to_vec(),
                returned,
                n_bases,
                changed,
                delta_min,
                base: unique.as_ref().map(|u| u.0.params.clone()),
                base_score: unique.as_ref().map(|u| u.0.score),
                expect: unique.as_ref().map(|u| u.1),
                outcome: None,
                maybe_noop,
            });
        }
        self.pending = Some((params.to_vec(), returned, bases));
    }

    /// candidate final states once the run is over
    pub fn final_candidates(&mut self) -> Vec<Cand> {
        let c = self.resolve_pending();
        self.cands = c.clone();
        c
    }
}

// ------------------------------------------------------------------------------------------------

/// What a scripted score function answers, relative to the model's current score.
#[derive(Clone, Copy, Debug, PartialEq, Serialize, serde::Deserialize)]
pub enum Decision {
    Better(f64),
    Equal,
    Worse(f64),
    Invalid,
}

pub trait Policy: Send {
    /// score to return for this call. `info.current` is None while the trace is ambiguous.
    fn decide(&mut self, params: &[f64], info: &CallInfo) -> Option<f64>;
}

pub struct Brain {
    pub model: Model,
    /// decision-agnostic observer of the same calls (every step may have been accepted or rejected)
    pub shadow: Option<Model>,
    pub policy: Box<dyn Policy>,
    pub log_scores: Vec<Option<f64>>,
}

pub type SharedBrain = Arc<Mutex<Brain>>;

pub fn new_brain(model: Model, policy: Box<dyn Policy>) -> SharedBrain {
    Arc::new(Mutex::new(Brain { model, shadow: None, policy, log_scores: vec![] }))
}

/// Synthetic state: n parameters with chosen bounds, score decided by the brain.
pub struct Script {
    vals: Vec<SharedValue>,
    bounds: Vec<(f64, f64)>,
    /// indices of values that get a second basis handle (appended after the n ordinary handles): two handles on one
    /// value are legal for a user-written state and must behave like one
    twins: Vec<usize>,
    pub brain: SharedBrain,
}

impl Script {
    pub fn new(init: &[f64], bounds: &[(f64, f64)], brain: SharedBrain) -> Script {
        Script { vals: init.iter().map(|v| SharedValue::new(*v)).collect(), bounds: bounds.to_vec(), twins: vec![], brain }
    }
    pub fn with_twins(mut self, twins: &[usize]) -> Script {
        self.twins = twins.iter().map(|i| i % self.vals.len().max(1)).collect();
        self
    }
    pub fn params(&self) -> Vec<f64> {
        self.vals.iter().map(|v| v.get_value()).collect()
    }
}

impl Clone for Script {
    fn clone(&self) -> Script {
        Script { vals: self.vals.iter().map(|v| SharedValue::new(v.get_value())).collect(), bounds: self.bounds.clone(), twins: self.twins.clone(), brain: self.brain.clone() }
    }
}

impl fmt::Debug for Script {
    fn fmt(&self, f: &mut fmt::Formatter) -> fmt::Result {
        write!(f, "Script{:?}", self.params())
    }
}

impl PartialEq for Script {
    fn eq(&self, _: &Script) -> bool {
        true
    }
}
impl Eq for Script {}
impl PartialOrd for Script {
    fn partial_cmp(&self, _: &Script) -> Option<Ordering> {
        Some(Ordering::Equal)
    }
}
impl Ord for Script {
    fn cmp(&self, _: &Script) -> Ordering {
        Ordering::Equal
    }
}

impl Serialize for Script {
    fn serialize<S: Serializer>(&self, s: S) -> Result<S::Ok, S::Error> {
        self.params().serialize(s)
    }
}

impl ToSVG for Script {
    type Value = Document;
    fn as_svg(&self) -> Document {
        Document::new()
    }
}

impl State for Script {
    fn score(&self) -> Option<f64> {
        let params = self.params();
        // the guard is dropped before returning; nothing below calls score() again
        let mut brain = self.brain.lock().unwrap_or_else(|e| e.into_inner());
        let info = brain.model.begin_call(&params);
        if let Some(sh) = brain.shadow.as_mut() {
            let _ = sh.begin_call(&params);
        }
        let ret = brain.policy.decide(&params, &info);
        brain.model.end_call(&params, ret);
        if let Some(sh) = brain.shadow.as_mut() {
            sh.end_call(&params, ret);
        }
        brain.log_scores.push(ret);
        ret
    }
    fn generate_basis(&self) -> Vec<StandardBasis> {
        let mut b: Vec<StandardBasis> = self.vals.iter().zip(self.bounds.iter()).map(|(v, (lo, hi))| StandardBasis::new(v, *lo, *hi)).collect();
        for i in self.twins.iter() {
            b.push(StandardBasis::new(&self.vals[*i], self.bounds[*i].0, self.bounds[*i].1));
        }
        b
    }
    fn total_shapes(&self) -> usize {
        1
    }
    fn as_positions(&self) -> Result<String, anyhow::Error> {
        Ok(format!("{:?}", self.params()))
    }
}

/// read the parameter vector of any State through its basis handles
pub fn params_of_state<S: State>(s: &S) -> Vec<f64> {
    s.generate_basis().iter().map(|b| b.get_value()).collect()
}

// ------------------------------------------------------------------------------------------------

/// Logging wrapper around a real state.
pub struct Probe<S: State> {
    pub inner: S,
    pub model: Arc<Mutex<Model>>,
    /// optional observer called with every (params, score)
    pub scores: Arc<Mutex<Vec<Option<f64>>>>,
    /// unwind out of the optimiser (payload NonFiniteStop) at the first proposal that holds a parameter which is not a
    /// finite number; the caller then repeats the run with `steps` = that proposal's number, see props/c08.rs
    pub stop_on_nonfinite: bool,
}

/// number of the proposal (1-based) that held a non-finite parameter
pub struct NonFiniteStop(pub u64);

impl<S: State> Probe<S> {
    pub fn new(inner: S, kt_zero: bool) -> Probe<S> {
        Probe { inner, model: Arc::new(Mutex::new(Model::new(kt_zero, true))), scores: Arc::new(Mutex::new(vec![])), stop_on_nonfinite: false }
    }
}

impl<S: State> Clone for Probe<S> {
    fn clone(&self) -> Self {
        Probe { inner: self.inner.clone(), model: self.model.clone(), scores: self.scores.clone(), stop_on_nonfinite: self.stop_on_nonfinite }
    }
}
impl<S: State> fmt::Debug for Probe<S> {
    fn fmt(&self, f: &mut fmt::Formatter) -> fmt::Result {
        write!(f, "Probe({:?})", self.inner)
    }
}
impl<S: State> PartialEq for Probe<S> {
    fn eq(&self, o: &Self) -> bool {
        self.inner == o.inner
    }
}
impl<S: State> Eq for Probe<S> {}
impl<S: State> PartialOrd for Probe<S> {
    fn partial_cmp(&self, o: &Self) -> Option<Ordering> {
        self.inner.partial_cmp(&o.inner)
    }
}
impl<S: State> Ord for Probe<S> {
    fn cmp(&self, o: &Self) -> Ordering {
        self.inner.cmp(&o.inner)
    }
}
impl<S: State> Serialize for Probe<S> {
    fn serialize<Z: Serializer>(&self, s: Z) -> Result<Z::Ok, Z::Error> {
        self.inner.serialize(s)
    }
}
impl<S: State> ToSVG for Probe<S> {
    type Value = Document;
    fn as_svg(&self) -> Document {
        self.inner.as_svg()
    }
}
impl<S: State> State for Probe<S> {
    fn score(&self) -> Option<f64> {
        let params = params_of_state(&self.inner);
        if self.stop_on_nonfinite && params.iter().any(|p| !p.is_finite()) {
            let n = self.scores.lock().unwrap_or_else(|e| e.into_inner()).len() as u64;
            if n >= 1 {
                std::panic::panic_any(NonFiniteStop(n));
            }
        }
        let ret = self.inner.score();
        {
            let mut m = self.model.lock().unwrap_or_else(|e| e.into_inner());
            let _ = m.begin_call(&params);
            m.end_call(&params, ret);
        }
        self.scores.lock().unwrap_or_else(|e| e.into_inner()).push(ret);
        ret
    }
    fn generate_basis(&self) -> Vec<StandardBasis> {
        self.inner.generate_basis()
    }
    fn total_shapes(&self) -> usize {
        self.inner.total_shapes()
    }
    fn as_positions(&self) -> Result<String, anyhow::Error> {
        self.inner.as_positions()
    }
}

//! Building states of arbitrary parameters without access to private fields.
//!
//! Route 1 (any finite values): `from_group(shape, group)` -> serde_json::Value -> overwrite the numbers ->
//! `from_value`.  Going through `Value` (not text) keeps every f64 bit-exact, so the float *parser* of
//! serde_json (subject of C11) cannot leak into other properties.
//! Route 2 (fast, values inside the optimiser's bounds): a template state plus its `generate_basis()`
//! handles; which handle drives which named field is *discovered* by probing, not assumed.

use packing::traits::{Basis, Intersect, Potential, Shape, State};
use packing::wallpaper::{get_wallpaper_group, WallpaperGroup, WallpaperGroups};
use packing::{LJShape2, LineShape, MolecularShape2, PackedState, PotentialState, StandardBasis};
use serde::de::DeserializeOwned;
use serde::{Deserialize, Serialize};
use serde_json::{json, Value};

use crate::geom::{self, OShape, P};

#[derive(Clone, Debug, Serialize, Deserialize, PartialEq)]
pub enum ShapeSpec {
    Polygon { sides: usize },
    Radial { radii: Vec<f64> },
    Circle,
    Trimer { radius: f64, angle: f64, distance: f64 },
}

#[derive(Clone, Debug, Serialize, Deserialize, PartialEq)]
pub struct Params {
    pub length: f64,
    pub ratio: f64,
    pub angle: f64,
    pub x: f64,
    pub y: f64,
    pub phi: f64,
}

#[derive(Clone, Debug, Serialize, Deserialize, PartialEq)]
pub struct StateSpec {
    pub group: usize,
    pub shape: ShapeSpec,
    pub p: Params,
}

pub fn wg(group: usize) -> WallpaperGroup<'static> {
    let v = match group {
        0 => WallpaperGroups::p1,
        1 => WallpaperGroups::p2,
        2 => WallpaperGroups::p1m1,
        3 => WallpaperGroups::p1g1,
        4 => WallpaperGroups::p2mm,
        5 => WallpaperGroups::p2mg,
        6 => WallpaperGroups::p2gg,
        _ => panic!("group index"),
    };
    get_wallpaper_group(v).expect("get_wallpaper_group")
}

pub fn line_shape(spec: &ShapeSpec) -> Option<LineShape> {
    match spec {
        ShapeSpec::Polygon { sides } => LineShape::polygon(*sides).ok(),
        ShapeSpec::Radial { radii } => LineShape::from_radial("Radial", radii.clone()).ok(),
        _ => None,
    }
}

pub fn mol_shape(spec: &ShapeSpec) -> Option<MolecularShape2> {
    match spec {
        ShapeSpec::Circle => Some(MolecularShape2::circle()),
        ShapeSpec::Trimer { radius, angle, distance } => Some(MolecularShape2::from_trimer(*radius, *angle, *distance)),
        _ => None,
    }
}

pub fn lj_shape(spec: &ShapeSpec) -> Option<LJShape2> {
    match spec {
        ShapeSpec::Circle => Some(LJShape2::circle()),
        ShapeSpec::Trimer { radius, angle, distance } => Some(LJShape2::from_trimer(*radius, *angle, *distance)),
        _ => None,
    }
}

/// Package values are built from the package's own constructors and then assigned field by field, never by struct
/// literals: a field added to one of these types must not stop the harness from compiling.
pub fn lj2(x: f64, y: f64, sigma: f64, epsilon: f64, cutoff: Option<f64>) -> packing::LJ2 {
    let mut a = packing::LJ2::new(x, y, sigma);
    a.epsilon = epsilon;
    a.cutoff = cutoff;
    a
}

pub fn lj_molecule(name: &str, items: Vec<packing::LJ2>) -> LJShape2 {
    let mut s = LJShape2::circle();
    s.name = name.to_string();
    s.items = items;
    s
}

pub fn custom_wallpaper_group<'a>(name: &'a str, family: packing::CrystalFamily, listing: Vec<&'a str>) -> WallpaperGroup<'a> {
    let mut g = get_wallpaper_group(WallpaperGroups::p1).expect("get_wallpaper_group");
    g.name = name;
    g.family = family;
    g.wyckoff_str = listing;
    g
}

/// the oracle's own description of the requested shape (from the documentation of the constructors)
pub fn oshape_from_spec(spec: &ShapeSpec) -> OShape {
    match spec {
        ShapeSpec::Polygon { sides } => OShape::Poly(geom::regular_polygon(*sides)),
        ShapeSpec::Radial { radii } => OShape::Poly(geom::radial_polygon(radii)),
        ShapeSpec::Circle => OShape::Discs(vec![(P::new(0., 0.), 1.0)]),
        ShapeSpec::Trimer { radius, angle, distance } => OShape::Discs(geom::trimer_discs(*radius, *angle, *distance)),
    }
}

/// the geometry the code actually built (public `items`)
pub fn oshape_of_line(s: &LineShape) -> OShape {
    OShape::Poly(s.items.iter().map(|l| P::new(l.start.x, l.start.y)).collect())
}

pub fn oshape_of_mol(s: &MolecularShape2) -> OShape {
    OShape::Discs(s.items.iter().map(|a| (P::new(a.position.x, a.position.y), a.radius)).collect())
}

pub fn patch_params(v: &mut Value, p: &Params) {
    v["cell"]["length"] = json!(p.length);
    v["cell"]["ratio"] = json!(p.ratio);
    v["cell"]["angle"] = json!(p.angle);
    v["occupied_sites"][0]["x"] = json!(p.x);
    v["occupied_sites"][0]["y"] = json!(p.y);
    v["occupied_sites"][0]["angle"] = json!(p.phi);
}

pub fn read_params(v: &Value) -> Option<Params> {
    Some(Params {
        length: v["cell"]["length"].as_f64()?,
        ratio: v["cell"]["ratio"].as_f64()?,
        angle: v["cell"]["angle"].as_f64()?,
        x: v["occupied_sites"][0]["x"].as_f64()?,
        y: v["occupied_sites"][0]["y"].as_f64()?,
        phi: v["occupied_sites"][0]["angle"].as_f64()?,
    })
}

pub fn params_of<T: Serialize>(state: &T) -> Option<Params> {
    read_params(&serde_json::to_value(state).ok()?)
}

/// Route 1.
pub fn with_params<T: Serialize + DeserializeOwned>(template: &T, p: &Params) -> Result<T, String> {
    let mut v = serde_json::to_value(template).map_err(|e| e.to_string())?;
    patch_params(&mut v, p);
    serde_json::from_value(v).map_err(|e| e.to_string())
}

pub fn packed_line(spec: &StateSpec) -> Result<PackedState<LineShape>, String> {
    let shape = line_shape(&spec.shape).ok_or("not a line shape")?;
    let t = PackedState::from_group(shape, &wg(spec.group)).map_err(|e| e.to_string())?;
    with_params(&t, &spec.p)
}

pub fn packed_mol(spec: &StateSpec) -> Result<PackedState<MolecularShape2>, String> {
    let shape = mol_shape(&spec.shape).ok_or("not a molecular shape")?;
    let t = PackedState::from_group(shape, &wg(spec.group)).map_err(|e| e.to_string())?;
    with_params(&t, &spec.p)
}

pub fn potential_lj(spec: &StateSpec) -> Result<PotentialState<LJShape2>, String> {
    let shape = lj_shape(&spec.shape).ok_or("not an LJ shape")?;
    let t = PotentialState::from_group(shape, &wg(spec.group)).map_err(|e| e.to_string())?;
    with_params(&t, &spec.p)
}

// ------------------------------------------------------------------------------------------------
// Route 2: template + discovered basis handles

pub const FIELD_NAMES: [&str; 6] = ["length", "ratio", "angle", "x", "y", "phi"];

fn field_values(v: &Value) -> [f64; 6] {
    let p = read_params(v).expect("state JSON lacks the parameter fields");
    [p.length, p.ratio, p.angle, p.x, p.y, p.phi]
}

pub struct Tmpl<T: State + 'static> {
    // `basis` borrows from `*state`; it is declared first so that it is dropped first.
    basis: Vec<StandardBasis<'static>>,
    state: Box<T>,
    /// basis index for each of the six named fields, if the state exposes that freedom
    map: [Option<usize>; 6],
    fixed: [f64; 6],
}

impl<T: State + Serialize + 'static> Tmpl<T> {
    /// `template` must have been built with generous upper bounds (length, ratio) since the basis clamps to
    /// [declared minimum, value at creation].
    pub fn new(template: T) -> Tmpl<T> {
        let state = Box::new(template);
        let sref: &'static T = unsafe { &*(state.as_ref() as *const T) };
        let mut basis = sref.generate_basis();
        let before = field_values(&serde_json::to_value(sref).unwrap());
        let mut map = [None; 6];
        for (bi, b) in basis.iter_mut().enumerate() {
            let orig = b.get_value();
            // probe with a value that is inside every declared range of the package:
            // length [0.01, L], ratio [0.1, r], angle [pi/6, pi/2], x,y [-1/2,1/2], phi [0, 2pi]
            let probe = if orig != 0.4321 { 0.4321 } else { 0.4567 };
            b.set_value(probe);
            if b.get_value() != probe {
                // clamped: try a value in the angle range
                b.set_value(0.987);
            }
            let now = field_values(&serde_json::to_value(sref).unwrap());
            for f in 0..6 {
                if now[f].to_bits() != before[f].to_bits() && map[f].is_none() {
                    map[f] = Some(bi);
                }
            }
            b.set_value(orig);
            // set_value stores `old`; restore exactly
        }
        let after = field_values(&serde_json::to_value(sref).unwrap());
        for f in 0..6 {
            assert!(after[f].to_bits() == before[f].to_bits(), "template probing did not restore field {}", FIELD_NAMES[f]);
        }
        Tmpl { basis, state, map, fixed: before }
    }

    pub fn has_field(&self, f: usize) -> bool {
        self.map[f].is_some()
    }

    /// Set the parameters; fields that the state does not expose as a freedom keep their template value.
    /// Returns the values actually in force (after the package's own clamping).
    pub fn set(&mut self, p: &Params) -> Params {
        let want = [p.length, p.ratio, p.angle, p.x, p.y, p.phi];
        let mut got = self.fixed;
        for f in 0..6 {
            if let Some(bi) = self.map[f] {
                self.basis[bi].set_value(want[f]);
                got[f] = self.basis[bi].get_value();
            }
        }
        Params { length: got[0], ratio: got[1], angle: got[2], x: got[3], y: got[4], phi: got[5] }
    }

    pub fn state(&self) -> &T {
        &self.state
    }
}

pub fn big_params(group: usize) -> Params {
    let _ = group;
    Params { length: 1.0e4, ratio: 1.0, angle: std::f64::consts::FRAC_PI_2, x: 0., y: 0., phi: 0. }
}

pub fn tmpl_packed_line(group: usize, shape: &ShapeSpec) -> Result<Tmpl<PackedState<LineShape>>, String> {
    let s = packed_line(&StateSpec { group, shape: shape.clone(), p: big_params(group) })?;
    Ok(Tmpl::new(s))
}

pub fn tmpl_packed_mol(group: usize, shape: &ShapeSpec) -> Result<Tmpl<PackedState<MolecularShape2>>, String> {
    let s = packed_mol(&StateSpec { group, shape: shape.clone(), p: big_params(group) })?;
    Ok(Tmpl::new(s))
}

pub fn tmpl_potential(group: usize, shape: &ShapeSpec) -> Result<Tmpl<PotentialState<LJShape2>>, String> {
    let s = potential_lj(&StateSpec { group, shape: shape.clone(), p: big_params(group) })?;
    Ok(Tmpl::new(s))
}

/// marker so that unused-import lints stay quiet for trait imports used only through method syntax
#[allow(dead_code)]
fn _traits<S: Shape + Intersect, Q: Shape + Potential>() {}


// ------------------------------------------------------------------------------------------------
// reading a parameter vector (as returned by generate_basis()) without assuming its order

/// Which named field each basis handle of a state drives, discovered by probing a clone of the state; fields the
/// state does not expose as a freedom are taken from its JSON.
pub struct ParamReader {
    /// for every basis index: the field (0 length, 1 ratio, 2 angle, 3 x, 4 y, 5 phi) it drives
    pub field_of: Vec<Option<usize>>,
    pub fixed: [f64; 6],
}

impl ParamReader {
    pub fn new<T: State + Serialize + Clone>(state: &T) -> Option<ParamReader> {
        let probe = state.clone();
        let before = field_values(&serde_json::to_value(&probe).ok()?);
        let mut basis = probe.generate_basis();
        let mut field_of = vec![None; basis.len()];
        for bi in 0..basis.len() {
            let orig = basis[bi].get_value();
            let cand = if orig != 0.4321 { 0.4321 } else { 0.4567 };
            basis[bi].set_value(cand);
            if basis[bi].get_value().to_bits() == orig.to_bits() {
                basis[bi].set_value(0.987);
            }
            if basis[bi].get_value().to_bits() == orig.to_bits() {
                // the handle cannot move inside its bounds (degenerate range): nudge towards the other bound
                basis[bi].set_value(orig * 0.5);
            }
            let now = field_values(&serde_json::to_value(&probe).ok()?);
            for f in 0..6 {
                if now[f].to_bits() != before[f].to_bits() && !field_of.contains(&Some(f)) {
                    field_of[bi] = Some(f);
                    break;
                }
            }
            basis[bi].set_value(orig);
        }
        Some(ParamReader { field_of, fixed: before })
    }

    pub fn params(&self, v: &[f64]) -> Option<Params> {
        if v.len() != self.field_of.len() {
            return None;
        }
        let mut p = self.fixed;
        for (i, f) in self.field_of.iter().enumerate() {
            if let Some(f) = f {
                p[*f] = v[i];
            }
        }
        Some(Params { length: p[0], ratio: p[1], angle: p[2], x: p[3], y: p[4], phi: p[5] })
    }

    /// basis index driving a field
    pub fn index_of(&self, field: usize) -> Option<usize> {
        self.field_of.iter().position(|f| *f == Some(field))
    }
}

//! pvh — property verification harness for malramsay64/pypacking.
//!
//!   pvh <ID> [--tier quick|thorough] [--seed N] [--replay FILE] [--part NAME] [--scale F]
//!
//! exit 0: property held on everything explored; exit 1: VIOLATION line printed; exit 2: inconclusive
//! (harness problem, starved generator, fewer than 2 non-trivial cases).

mod cli;
mod engine;
mod evidence;
mod gen;
mod geom;
mod golden;
mod hard;
mod known;
mod multisite;
mod opgrammar;
mod opt;
mod probe;
mod props;
mod statejson;

use std::path::PathBuf;
use std::sync::atomic::{AtomicBool, Ordering};

use engine::{Ctx, Rec, Tier};
use evidence::Evidence;

static BROKEN: AtomicBool = AtomicBool::new(false);

pub fn mark_broken() {
    BROKEN.store(true, Ordering::SeqCst);
}

fn usage() -> ! {
    eprintln!("usage: pvh <C01..C20> [--tier quick|thorough] [--seed N] [--replay FILE] [--part NAME] [--scale F]");
    std::process::exit(2);
}

fn main() {
    let args: Vec<String> = std::env::args().skip(1).collect();
    if args.is_empty() {
        usage();
    }
    let id_arg = args[0].to_uppercase();
    let mut tier = match std::env::var("VERIF_TIER").ok().as_deref() {
        Some("thorough") => Tier::Thorough,
        _ => Tier::Quick,
    };
    let mut seed: u64 = std::env::var("VERIF_SEED").ok().and_then(|s| s.trim().parse::<i128>().ok()).map(|v| v as u64).unwrap_or(20261002);
    let mut replay: Option<PathBuf> = None;
    let mut only_part: Option<String> = None;
    let mut scale: f64 = std::env::var("VERIF_SCALE").ok().and_then(|s| s.parse().ok()).unwrap_or(1.0);
    let mut i = 1;
    while i < args.len() {
        match args[i].as_str() {
            "--tier" => {
                i += 1;
                tier = match args.get(i).map(|s| s.as_str()) {
                    Some("quick") => Tier::Quick,
                    Some("thorough") => Tier::Thorough,
                    _ => usage(),
                }
            }
            "quick" => tier = Tier::Quick,
            "thorough" => tier = Tier::Thorough,
            "--seed" => {
                i += 1;
                seed = args.get(i).and_then(|s| s.parse().ok()).unwrap_or_else(|| usage());
            }
            "--replay" => {
                i += 1;
                replay = Some(PathBuf::from(args.get(i).unwrap_or_else(|| usage())));
            }
            "--part" => {
                i += 1;
                only_part = Some(args.get(i).unwrap_or_else(|| usage()).clone());
            }
            "--scale" => {
                i += 1;
                scale = args.get(i).and_then(|s| s.parse().ok()).unwrap_or_else(|| usage());
            }
            _ => usage(),
        }
        i += 1;
    }
    let verif_dir = PathBuf::from(std::env::var("VERIF_DIR").unwrap_or_else(|_| "/verif".to_string()));
    let threads = std::env::var("VERIF_THREADS").ok().and_then(|s| s.parse().ok()).unwrap_or_else(|| std::thread::available_parallelism().map(|n| n.get()).unwrap_or(8).min(16));
    if id_arg == "GOLDEN" {
        // one-off tool: (re)write /verif/golden from the package as it is now
        match golden::write(&verif_dir) {
            Ok(()) => std::process::exit(0),
            Err(e) => {
                eprintln!("{}", e);
                std::process::exit(2);
            }
        }
    }
    let (id, title, parts, rule, assumptions) = match props::lookup(&id_arg) {
        Some(x) => x,
        None => {
            eprintln!("unknown property {}", id_arg);
            std::process::exit(2);
        }
    };
    let ctx = Ctx {
        id,
        tier,
        seed,
        threads,
        known: known::Known::load(&verif_dir.join("KNOWN_FINDINGS.txt")),
        verif_dir: verif_dir.clone(),
        cli_bin: std::env::var("PVH_CLI_BIN").ok().map(PathBuf::from),
        scale,
    };
    // panics inside oracles are caught by proptest (and by the C17/C20 oracles themselves); keep stderr quiet
    if std::env::var("PVH_VERBOSE_PANICS").is_err() {
        std::panic::set_hook(Box::new(|_| {}));
    }

    if let Some(path) = replay {
        let text = match std::fs::read_to_string(&path) {
            Ok(t) => t,
            Err(e) => {
                eprintln!("cannot read replay file {}: {}", path.display(), e);
                std::process::exit(2);
            }
        };
        let doc: serde_json::Value = match serde_json::from_str(&text) {
            Ok(v) => v,
            Err(e) => {
                eprintln!("replay file is not JSON: {}", e);
                std::process::exit(2);
            }
        };
        let part_name = doc["part"].as_str().unwrap_or("");
        let rec = Rec::new();
        for p in parts.iter() {
            if p.name == part_name {
                match (p.replay)(&doc["case"], &rec, &ctx) {
                    Ok(()) => {
                        let mut m = engine::Merged::default();
                        m.absorb(&rec, 1);
                        for (sig, (n, what)) in m.known.iter() {
                            println!("KNOWN-FINDING: property={} sig={} occurrences={} {}", id, sig, n, what);
                        }
                        println!("REPLAY-PASS property={} part={}", id, part_name);
                        std::process::exit(0);
                    }
                    Err(msg) => {
                        println!("VIOLATION property={} replay={}", id, path.display());
                        println!("  part={} message={}", part_name, msg);
                        std::process::exit(1);
                    }
                }
            }
        }
        eprintln!("replay file names part '{}' which property {} does not have", part_name, id);
        std::process::exit(2);
    }

    println!("pvh {} ({}) tier={:?} seed={} threads={} scale={}", id, title, tier, seed, threads, scale);
    let mut ev = Evidence::new(id);
    ev.rule = rule.to_string();
    ev.assumptions = assumptions.iter().map(|s| s.to_string()).collect();
    // seconds-long replay tier: every saved input of this property is re-judged first
    if only_part.is_none() {
        let mut files: Vec<PathBuf> = std::fs::read_dir(verif_dir.join("replays"))
            .map(|rd| rd.filter_map(|e| e.ok().map(|e| e.path())).filter(|p| p.file_name().and_then(|n| n.to_str()).map(|n| n.starts_with(&format!("{}-", id)) && n.ends_with(".json")).unwrap_or(false)).collect())
            .unwrap_or_default();
        files.sort();
        let mut m = engine::Merged::default();
        let mut replayed = 0u64;
        for f in files.iter() {
            let doc: serde_json::Value = match std::fs::read_to_string(f).ok().and_then(|t| serde_json::from_str(&t).ok()) {
                Some(d) => d,
                None => continue,
            };
            let part_name = doc["part"].as_str().unwrap_or("");
            if let Some(p) = parts.iter().find(|p| p.name == part_name) {
                let rec = Rec::new();
                replayed += 1;
                match (p.replay)(&doc["case"], &rec, &ctx) {
                    Ok(()) => {}
                    Err(msg) if msg.starts_with("replay file does not hold a case") => {
                        // a saved input written by an older version of the case type: not a verdict about the code
                        eprintln!("HARNESS-NOTE: saved input {} is not understood by this version of the check and is skipped: {}", f.display(), msg);
                    }
                    Err(msg) => {
                        println!("VIOLATION property={} replay={}", id, f.display());
                        println!("  part={} (saved input) message={}", part_name, msg);
                        ev.violations.push((part_name.to_string(), msg));
                    }
                }
                m.absorb(&rec, 1);
            }
        }
        if replayed > 0 {
            ev.absorb_part("saved-replays", &m);
            println!("  replayed {} saved inputs from {}/replays", replayed, verif_dir.display());
        }
    }
    for p in parts.iter() {
        if let Some(ref only) = only_part {
            if only != p.name {
                continue;
            }
        }
        let t0 = std::time::Instant::now();
        let before = (ev.evaluations, ev.cases);
        (p.run)(&ctx, &mut ev);
        println!(
            "  part {:<28} cases={:<10} evaluations={:<12} {:.1}s",
            p.name,
            ev.cases - before.1,
            ev.evaluations - before.0,
            t0.elapsed().as_secs_f64()
        );
    }
    ev.print_known();
    println!(
        "summary property={} evaluations={} generated_cases={} distinct_nontrivial={} violations={}",
        id,
        ev.evaluations,
        ev.cases,
        ev.distinct_nontrivial(),
        ev.violations.len()
    );
    if std::env::var("PVH_CLASSES").is_ok() {
        ev.print_classes();
    }
    if only_part.is_none() {
        if let Err(e) = ev.write(&ctx) {
            eprintln!("cannot write evidence: {}", e);
            std::process::exit(2);
        }
    }
    if !ev.violations.is_empty() {
        std::process::exit(1);
    }
    if BROKEN.load(Ordering::SeqCst) {
        eprintln!("HARNESS-ERROR: the check is broken on this run (see messages above); inconclusive");
        std::process::exit(2);
    }
    if only_part.is_none() && ev.distinct_nontrivial() < 2 {
        eprintln!("HARNESS-ERROR: fewer than 2 distinct non-trivial cases were explored; inconclusive");
        std::process::exit(2);
    }
    std::process::exit(0);
}

//! The operator-string grammar of C17: AST, renderer, evaluator and the two oracles.
//! Free of harness dependencies so that the libFuzzer target (/verif/fuzz) includes the same file.

use std::panic::{catch_unwind, AssertUnwindSafe};

use nalgebra::Point2;
use packing::Transform2;
use serde::{Deserialize, Serialize};

#[derive(Clone, Debug, Serialize, Deserialize, PartialEq)]
pub enum Term {
    X(bool),
    Y(bool),
    /// negative?, numerator, denominator (0 = none)
    C(bool, u8, u8),
}

#[derive(Clone, Debug, Serialize, Deserialize)]
pub struct Comp {
    pub terms: Vec<Term>,
    /// leading '+' on the first term when it is positive
    pub lead_plus: bool,
    /// spaces before/after each binary operator
    pub sp: Vec<(bool, bool)>,
}

#[derive(Clone, Debug, Serialize, Deserialize)]
pub struct OpCase {
    pub a: Comp,
    pub b: Comp,
    pub parens: bool,
    pub comma_spaces: u16,
    /// a long run of blanks (optional spaces are unbounded in the grammar) put before the first binary operator of the
    /// first component when it has one, otherwise after the comma
    #[serde(default)]
    pub long_run: u16,
    pub lead_space: bool,
    pub points: Vec<(f64, f64)>,
}

fn render_term(t: &Term) -> (bool, String) {
    match t {
        Term::X(n) => (*n, "x".to_string()),
        Term::Y(n) => (*n, "y".to_string()),
        Term::C(n, d, q) => (*n, if *q == 0 { format!("{}", d) } else { format!("{}/{}", d, q) }),
    }
}

fn render_comp(c: &Comp) -> String {
    render_comp_run(c, 0)
}

fn render_comp_run(c: &Comp, long_run: u16) -> String {
    let mut s = String::new();
    for (i, t) in c.terms.iter().enumerate() {
        let (neg, body) = render_term(t);
        if i == 0 {
            if neg {
                s.push('-');
            } else if c.lead_plus {
                s.push('+');
            }
        } else {
            // "x+1/2", "x +1/2", "x+ 1/2", "x + 1/2": blanks on either side of a binary operator
            let (before, after) = c.sp[i.min(c.sp.len() - 1)];
            if i == 1 {
                for _ in 0..long_run {
                    s.push(' ');
                }
            }
            if before {
                s.push(' ');
            }
            s.push(if neg { '-' } else { '+' });
            if after {
                s.push(' ');
            }
        }
        s.push_str(&body);
    }
    s
}

pub fn render(c: &OpCase) -> String {
    let mut s = String::new();
    if c.parens {
        s.push('(');
    }
    if c.lead_space && !c.parens {
        // leading blank only without parentheses (trim of braces happens first in any reader)
    }
    let in_first = c.a.terms.len() >= 2;
    s.push_str(&render_comp_run(&c.a, if in_first { c.long_run } else { 0 }));
    s.push(',');
    for _ in 0..(c.comma_spaces as u32 + if in_first { 0 } else { c.long_run as u32 }) {
        s.push(' ');
    }
    s.push_str(&render_comp(&c.b));
    if c.parens {
        s.push(')');
    }
    s
}

fn eval_comp(c: &Comp, x: f64, y: f64) -> f64 {
    let mut v = 0.;
    for t in c.terms.iter() {
        v += match t {
            Term::X(n) => {
                if *n {
                    -x
                } else {
                    x
                }
            }
            Term::Y(n) => {
                if *n {
                    -y
                } else {
                    y
                }
            }
            Term::C(n, d, q) => {
                let m = if *q == 0 { *d as f64 } else { *d as f64 / *q as f64 };
                if *n {
                    -m
                } else {
                    m
                }
            }
        };
    }
    v
}

pub fn check_grammar_string(c: &OpCase) -> Result<String, String> {
    let s = render(c);
    let res = catch_unwind(AssertUnwindSafe(|| Transform2::from_operations(&s)));
    let t = match res {
        Err(_) => return Err(format!("from_operations({:?}) panicked", s)),
        Ok(Err(e)) => return Err(format!("from_operations({:?}) rejected a string of the grammar: {}", s, e)),
        Ok(Ok(t)) => t,
    };
    for (x, y) in c.points.iter() {
        let q = t * Point2::new(*x, *y);
        let wx = eval_comp(&c.a, *x, *y);
        let wy = eval_comp(&c.b, *x, *y);
        if !((q.x - wx).abs() <= 1e-12 && (q.y - wy).abs() <= 1e-12) {
            return Err(format!("from_operations({:?}) maps ({}, {}) to ({}, {}); the expression denotes ({}, {})", s, x, y, q.x, q.y, wx, wy));
        }
    }
    Ok(s)
}

pub fn no_panic(s: &str) -> Result<bool, String> {
    match catch_unwind(AssertUnwindSafe(|| Transform2::from_operations(s).is_ok())) {
        Ok(ok) => Ok(ok),
        Err(_) => Err(format!("from_operations({:?}) panicked instead of returning Ok or Err", s)),
    }
}


// ------------------------------------------------------------------------------------------------
// byte decoding shared by the libFuzzer target and by the harness when it converts a fuzzer artifact into a replay file

pub fn decode_comp(b: &[u8]) -> Comp {
    let get = |i: usize| b.get(i).copied().unwrap_or(0);
    let mask = (get(0) % 7) + 1;
    let x = Term::X(get(1) & 1 == 1);
    let y = Term::Y(get(1) & 2 == 2);
    let q = get(3) % 10;
    let c = Term::C(get(1) & 4 == 4, get(2) % 10, if get(1) & 8 == 8 { if q == 0 { 1 } else { q } } else { 0 });
    let mut pool = vec![];
    if mask & 1 != 0 {
        pool.push(x);
    }
    if mask & 2 != 0 {
        pool.push(y);
    }
    if mask & 4 != 0 {
        pool.push(c);
    }
    let mut terms = vec![];
    let mut code = get(4) as usize;
    while !pool.is_empty() {
        let k = code % pool.len();
        code /= pool.len().max(1);
        terms.push(pool.remove(k));
    }
    Comp { terms, lead_plus: get(5) & 1 == 1, sp: vec![(get(5) & 2 == 2, get(5) & 16 == 16), (get(5) & 4 == 4, get(5) & 32 == 32), (get(5) & 8 == 8, get(5) & 64 == 64)] }
}

pub fn decode_case(b: &[u8]) -> OpCase {
    let get = |i: usize| b.get(i).copied().unwrap_or(0);
    let a = decode_comp(b.get(0..6).unwrap_or(&[]));
    let bb = decode_comp(b.get(6..12).unwrap_or(&[]));
    let pt = |i: usize| (get(i) as f64 / 32. - 4., get(i + 1) as f64 / 32. - 4.);
    OpCase { a, b: bb, parens: get(12) & 1 == 1, comma_spaces: (get(12) >> 6) as u16, long_run: if get(12) & 0x3e == 0x3e { 200 + get(17) as u16 * 2 } else { 0 }, lead_space: false, points: vec![pt(13), pt(15), (1., 0.), (0., 1.), (0.37, -2.25)] }
}


//! Independent geometry kernel — the trusted base of most oracles.
//!
//! Written from the mathematics (ITA plane-group tables, separating-axis theorem, closed-form circular
//! segment integrals), not from the code under test.  Nothing in here calls into `packing`.

use std::f64::consts::PI;

#[derive(Clone, Copy, Debug, PartialEq)]
pub struct P {
    pub x: f64,
    pub y: f64,
}

impl P {
    pub fn new(x: f64, y: f64) -> P {
        P { x, y }
    }
    pub fn add(self, o: P) -> P {
        P::new(self.x + o.x, self.y + o.y)
    }
    pub fn sub(self, o: P) -> P {
        P::new(self.x - o.x, self.y - o.y)
    }
    pub fn scale(self, s: f64) -> P {
        P::new(self.x * s, self.y * s)
    }
    pub fn dot(self, o: P) -> f64 {
        self.x * o.x + self.y * o.y
    }
    pub fn cross(self, o: P) -> f64 {
        self.x * o.y - self.y * o.x
    }
    pub fn norm(self) -> f64 {
        self.x.hypot(self.y)
    }
    pub fn norm2(self) -> f64 {
        self.x * self.x + self.y * self.y
    }
}

/// 2x2 linear map [[a,b],[c,d]]
#[derive(Clone, Copy, Debug, PartialEq)]
pub struct Lin {
    pub a: f64,
    pub b: f64,
    pub c: f64,
    pub d: f64,
}

impl Lin {
    pub fn id() -> Lin {
        Lin { a: 1., b: 0., c: 0., d: 1. }
    }
    pub fn rot(phi: f64) -> Lin {
        Lin { a: phi.cos(), b: -phi.sin(), c: phi.sin(), d: phi.cos() }
    }
    pub fn mul(self, o: Lin) -> Lin {
        Lin {
            a: self.a * o.a + self.b * o.c,
            b: self.a * o.b + self.b * o.d,
            c: self.c * o.a + self.d * o.c,
            d: self.c * o.b + self.d * o.d,
        }
    }
    pub fn apply(self, p: P) -> P {
        P::new(self.a * p.x + self.b * p.y, self.c * p.x + self.d * p.y)
    }
    pub fn det(self) -> f64 {
        self.a * self.d - self.b * self.c
    }
    pub fn inv(self) -> Lin {
        let d = self.det();
        Lin { a: self.d / d, b: -self.b / d, c: -self.c / d, d: self.a / d }
    }
    /// max |(L^T L - I)_ij|
    pub fn orthogonality_defect(self) -> f64 {
        let e00 = self.a * self.a + self.c * self.c - 1.;
        let e01 = self.a * self.b + self.c * self.d;
        let e11 = self.b * self.b + self.d * self.d - 1.;
        e00.abs().max(e01.abs()).max(e11.abs())
    }
    pub fn max_abs_diff(self, o: Lin) -> f64 {
        (self.a - o.a).abs().max((self.b - o.b).abs()).max((self.c - o.c).abs()).max((self.d - o.d).abs())
    }
}

/// affine map p -> l p + t
#[derive(Clone, Copy, Debug, PartialEq)]
pub struct Aff {
    pub l: Lin,
    pub t: P,
}

impl Aff {
    pub fn id() -> Aff {
        Aff { l: Lin::id(), t: P::new(0., 0.) }
    }
    pub fn apply(self, p: P) -> P {
        self.l.apply(p).add(self.t)
    }
    /// self ∘ o
    pub fn mul(self, o: Aff) -> Aff {
        Aff { l: self.l.mul(o.l), t: self.l.apply(o.t).add(self.t) }
    }
}

// ------------------------------------------------------------------------------------------------
// plane groups (ITA standard setting, general positions)

#[derive(Clone, Copy, Debug, PartialEq)]
pub enum Family {
    Oblique,
    Rectangular,
}

#[derive(Clone, Debug)]
pub struct Group {
    pub name: &'static str,
    pub family: Family,
    /// (W, w): fractional (x,y) -> W (x,y) + w
    pub ops: Vec<Aff>,
}

fn op(a: f64, b: f64, c: f64, d: f64, tx: f64, ty: f64) -> Aff {
    Aff { l: Lin { a, b, c, d }, t: P::new(tx, ty) }
}

pub const GROUP_NAMES: [&str; 7] = ["p1", "p2", "p1m1", "p1g1", "p2mm", "p2mg", "p2gg"];

/// International Tables for Crystallography vol. A, plane groups No. 1,2,3,4,6,7,8
pub fn group(index: usize) -> Group {
    let e = op(1., 0., 0., 1., 0., 0.);
    let two = op(-1., 0., 0., -1., 0., 0.);
    match index {
        0 => Group { name: "p1", family: Family::Oblique, ops: vec![e] },
        1 => Group { name: "p2", family: Family::Oblique, ops: vec![e, two] },
        // pm: mirror line perpendicular to x:  (x,y), (-x,y)
        2 => Group { name: "p1m1", family: Family::Rectangular, ops: vec![e, op(-1., 0., 0., 1., 0., 0.)] },
        // pg: glide line perpendicular to x, glide b/2:  (x,y), (-x,y+1/2)
        3 => Group { name: "p1g1", family: Family::Rectangular, ops: vec![e, op(-1., 0., 0., 1., 0., 0.5)] },
        4 => Group {
            name: "p2mm",
            family: Family::Rectangular,
            ops: vec![e, two, op(-1., 0., 0., 1., 0., 0.), op(1., 0., 0., -1., 0., 0.)],
        },
        5 => Group {
            name: "p2mg",
            family: Family::Rectangular,
            ops: vec![e, two, op(-1., 0., 0., 1., 0.5, 0.), op(1., 0., 0., -1., 0.5, 0.)],
        },
        6 => Group {
            name: "p2gg",
            family: Family::Rectangular,
            ops: vec![e, two, op(-1., 0., 0., 1., 0.5, 0.5), op(1., 0., 0., -1., 0.5, 0.5)],
        },
        _ => panic!("group index"),
    }
}

pub fn group_index(name: &str) -> Option<usize> {
    GROUP_NAMES.iter().position(|n| *n == name)
}

// ------------------------------------------------------------------------------------------------
// lattice

#[derive(Clone, Copy, Debug, PartialEq)]
pub struct Lattice {
    pub a: f64,
    pub b: f64,
    pub theta: f64,
}

impl Lattice {
    pub fn from_params(length: f64, ratio: f64, angle: f64) -> Lattice {
        Lattice { a: length, b: length * ratio, theta: angle }
    }
    pub fn va(&self) -> P {
        P::new(self.a, 0.)
    }
    pub fn vb(&self) -> P {
        P::new(self.b * self.theta.cos(), self.b * self.theta.sin())
    }
    pub fn m(&self) -> Lin {
        let a = self.va();
        let b = self.vb();
        Lin { a: a.x, b: b.x, c: a.y, d: b.y }
    }
    pub fn to_cart(&self, f: P) -> P {
        self.va().scale(f.x).add(self.vb().scale(f.y))
    }
    pub fn area(&self) -> f64 {
        self.va().cross(self.vb()).abs()
    }
    pub fn height(&self) -> f64 {
        self.b * self.theta.sin()
    }
}

pub fn wrap_half(v: f64) -> f64 {
    // into [-1/2, 1/2)
    let w = v - (v + 0.5).floor();
    if w >= 0.5 {
        w - 1.
    } else if w < -0.5 {
        w + 1.
    } else {
        w
    }
}

/// distance on the circle R/Z
pub fn circ_dist(a: f64, b: f64) -> f64 {
    let d = (a - b).rem_euclid(1.0);
    d.min(1.0 - d)
}

/// Fractional placement of copy k of a site (x, y, phi): linear part W_k R(phi), translation wrap(W_k (x,y) + w_k)
pub fn site_copies_fractional(g: &Group, x: f64, y: f64, phi: f64) -> Vec<Aff> {
    g.ops
        .iter()
        .map(|o| {
            let f = o.apply(P::new(x, y));
            Aff { l: o.l.mul(Lin::rot(phi)), t: P::new(wrap_half(f.x), wrap_half(f.y)) }
        })
        .collect()
}

/// Cartesian placements (linear part is kept, translation mapped through the lattice) — the convention of
/// the package (documented in Cell2::to_cartesian_isometry): operations act on Cartesian shape coordinates
/// with their fractional matrix, which is a rigid motion exactly when the cell belongs to the group's family.
pub fn site_copies_cartesian(g: &Group, lat: &Lattice, x: f64, y: f64, phi: f64) -> Vec<Aff> {
    site_copies_fractional(g, x, y, phi).into_iter().map(|a| Aff { l: a.l, t: lat.to_cart(a.t) }).collect()
}

/// all lattice translations (n, m) such that |delta + n A + m B| < rho, found from the geometry
pub fn lattice_vectors_within(lat: &Lattice, delta: P, rho: f64, out: &mut Vec<(i64, i64, P)>) {
    let a = lat.va();
    let b = lat.vb();
    let h = b.y; // b sin(theta) > 0
    if !(h > 0.) || !(lat.a > 0.) || !rho.is_finite() {
        return;
    }
    let m_lo = ((-rho - delta.y) / h).floor() as i64 - 1;
    let m_hi = ((rho - delta.y) / h).ceil() as i64 + 1;
    for m in m_lo..=m_hi {
        let dy = delta.y + m as f64 * h;
        if dy.abs() >= rho {
            continue;
        }
        let half = (rho * rho - dy * dy).sqrt();
        let base = delta.x + m as f64 * b.x;
        let n_lo = ((-half - base) / a.x).floor() as i64 - 1;
        let n_hi = ((half - base) / a.x).ceil() as i64 + 1;
        for n in n_lo..=n_hi {
            let v = P::new(base + n as f64 * a.x, dy);
            if v.norm2() < rho * rho {
                out.push((n, m, v));
            }
        }
    }
}

// ------------------------------------------------------------------------------------------------
// shapes

#[derive(Clone, Debug, PartialEq)]
pub enum OShape {
    /// convex polygon, vertices in order (either orientation)
    Poly(Vec<P>),
    Discs(Vec<(P, f64)>),
}

pub fn regular_polygon(n: usize) -> Vec<P> {
    radial_polygon(&vec![1.0; n])
}

/// vertex k at radius r_k and angle k*2pi/n measured from +y towards +x (the package's documented convention)
pub fn radial_polygon(radii: &[f64]) -> Vec<P> {
    let n = radii.len();
    (0..n)
        .map(|k| {
            let ang = k as f64 * 2. * PI / n as f64;
            P::new(radii[k] * ang.sin(), radii[k] * ang.cos())
        })
        .collect()
}

/// trimer: central disc radius 1, two discs of radius r at distance d from the central one, separated by
/// `angle_deg`, the whole molecule shifted so that the centroid of the three centres is at the origin.
pub fn trimer_discs(radius: f64, angle_deg: f64, distance: f64) -> Vec<(P, f64)> {
    let half = angle_deg.to_radians() / 2.;
    let yc = distance * half.cos();
    vec![
        (P::new(0., -2. / 3. * yc), 1.0),
        (P::new(-distance * half.sin(), yc / 3.), radius),
        (P::new(distance * half.sin(), yc / 3.), radius),
    ]
}

impl OShape {
    pub fn enclosing_radius(&self) -> f64 {
        match self {
            OShape::Poly(v) => v.iter().map(|p| p.norm()).fold(0., f64::max),
            OShape::Discs(d) => d.iter().map(|(c, r)| c.norm() + r).fold(0., f64::max),
        }
    }
    pub fn transform(&self, t: &Aff) -> OShape {
        match self {
            OShape::Poly(v) => OShape::Poly(v.iter().map(|p| t.apply(*p)).collect()),
            OShape::Discs(d) => OShape::Discs(d.iter().map(|(c, r)| (t.apply(*c), *r)).collect()),
        }
    }
    pub fn area(&self) -> f64 {
        match self {
            OShape::Poly(v) => poly_area(v),
            OShape::Discs(d) => union_area_discs(d),
        }
    }
    /// signed gap: > 0 separated by at least that much, < 0 interiors overlap with that penetration depth
    pub fn gap(&self, other: &OShape) -> f64 {
        match (self, other) {
            (OShape::Poly(a), OShape::Poly(b)) => poly_gap(a, b),
            (OShape::Discs(a), OShape::Discs(b)) => discs_gap(a, b),
            _ => panic!("mixed shapes"),
        }
    }
}

pub fn poly_area(v: &[P]) -> f64 {
    let n = v.len();
    let mut s = 0.;
    for i in 0..n {
        s += v[i].cross(v[(i + 1) % n]);
    }
    0.5 * s.abs()
}

pub fn is_convex(v: &[P]) -> bool {
    let n = v.len();
    if n < 3 {
        return false;
    }
    let mut sign = 0.;
    for i in 0..n {
        let a = v[i];
        let b = v[(i + 1) % n];
        let c = v[(i + 2) % n];
        let cr = b.sub(a).cross(c.sub(b));
        if cr.abs() < 1e-12 {
            return false; // degenerate (collinear) — excluded from the convex domain
        }
        if sign == 0. {
            sign = cr.signum();
        } else if cr.signum() != sign {
            return false;
        }
    }
    true
}

fn project(v: &[P], axis: P) -> (f64, f64) {
    let mut lo = f64::INFINITY;
    let mut hi = f64::NEG_INFINITY;
    for p in v {
        let s = p.dot(axis);
        if s < lo {
            lo = s;
        }
        if s > hi {
            hi = s;
        }
    }
    (lo, hi)
}

/// Separating-axis signed gap of two convex polygons.
/// s > 0: some edge normal separates the polygons by s (true distance >= s);
/// s < 0: the interiors overlap and -s is the minimum translation distance along an edge normal
///        (for convex polygons the exact penetration depth).
pub fn poly_gap(a: &[P], b: &[P]) -> f64 {
    let mut s = f64::NEG_INFINITY;
    for poly in [a, b].iter() {
        let n = poly.len();
        for i in 0..n {
            let e = poly[(i + 1) % n].sub(poly[i]);
            let len = e.norm();
            if len == 0. {
                continue;
            }
            let axis = P::new(-e.y / len, e.x / len);
            let (alo, ahi) = project(a, axis);
            let (blo, bhi) = project(b, axis);
            // overlap needed to separate along this axis (negative when already separated)
            let o = (ahi - blo).min(bhi - alo);
            if -o > s {
                s = -o;
            }
        }
    }
    s
}

pub fn discs_gap(a: &[(P, f64)], b: &[(P, f64)]) -> f64 {
    let mut s = f64::INFINITY;
    for (ca, ra) in a {
        for (cb, rb) in b {
            let g = ca.sub(*cb).norm() - (ra + rb);
            if g < s {
                s = g;
            }
        }
    }
    s
}

fn point_segment_distance(p: P, a: P, b: P) -> f64 {
    let ab = b.sub(a);
    let l2 = ab.norm2();
    if l2 == 0. {
        return p.sub(a).norm();
    }
    let t = (p.sub(a).dot(ab) / l2).max(0.).min(1.);
    p.sub(a.add(ab.scale(t))).norm()
}

/// Degeneracy classifier: some vertex of one polygon lies within `tol` of the boundary of the other
/// (covers collinear overlapping edges, T-junctions and shared vertices) — the configurations in which an
/// edge-crossing test has no transversal crossing to find.
pub fn edge_aligned(a: &[P], b: &[P], tol: f64) -> bool {
    for (p, q) in [(a, b), (b, a)].iter() {
        let n = q.len();
        for v in p.iter() {
            for i in 0..n {
                if point_segment_distance(*v, q[i], q[(i + 1) % n]) <= tol {
                    return true;
                }
            }
        }
    }
    false
}

// ------------------------------------------------------------------------------------------------
// area of a union of discs by vertical decomposition

fn seg_integral(r: f64, u: f64) -> f64 {
    // ∫ sqrt(r^2 - u^2) du  (antiderivative)
    // both terms use the same s = sqrt((r-u)(r+u)): their rounding errors then cancel to first order near
    // u = +-r, where u*sqrt(r^2-u^2) and r^2 asin(u/r) evaluated separately lose 8 digits
    let u = u.max(-r).min(r);
    let s = ((r - u) * (r + u)).max(0.).sqrt();
    0.5 * (u * s + r * r * u.atan2(s))
}

pub fn union_area_discs(discs: &[(P, f64)]) -> f64 {
    let discs: Vec<(P, f64)> = discs.iter().cloned().filter(|(_, r)| *r > 0.).collect();
    if discs.is_empty() {
        return 0.;
    }
    let mut xs: Vec<f64> = Vec::new();
    for (c, r) in discs.iter() {
        xs.push(c.x - r);
        xs.push(c.x + r);
    }
    for i in 0..discs.len() {
        for j in (i + 1)..discs.len() {
            let (c1, r1) = discs[i];
            let (c2, r2) = discs[j];
            let dv = c2.sub(c1);
            let d = dv.norm();
            if d == 0. || d > r1 + r2 || d < (r1 - r2).abs() {
                continue;
            }
            let a = (d * d + r1 * r1 - r2 * r2) / (2. * d);
            let h2 = r1 * r1 - a * a;
            let h = h2.max(0.).sqrt();
            let ux = dv.x / d;
            let uy = dv.y / d;
            let mx = c1.x + a * ux;
            xs.push(mx - h * uy);
            xs.push(mx + h * uy);
        }
    }
    xs.sort_by(|p, q| p.partial_cmp(q).unwrap());
    let mut total = 0.;
    for w in xs.windows(2) {
        let (x0, x1) = (w[0], w[1]);
        if !(x1 > x0) {
            continue;
        }
        let xm = 0.5 * (x0 + x1);
        // intervals at the midpoint
        let mut iv: Vec<(f64, f64, usize)> = Vec::new();
        for (k, (c, r)) in discs.iter().enumerate() {
            let u = xm - c.x;
            if u.abs() < *r {
                let h = (r * r - u * u).sqrt();
                iv.push((c.y - h, c.y + h, k));
            }
        }
        if iv.is_empty() {
            continue;
        }
        iv.sort_by(|p, q| p.0.partial_cmp(&q.0).unwrap());
        // merge
        let mut cur_lo = iv[0];
        let mut cur_hi = iv[0];
        let mut flush = |lo: (f64, f64, usize), hi: (f64, f64, usize), total: &mut f64| {
            // ∫ (top arc of hi.2) - (bottom arc of lo.2)
            let (ct, rt) = discs[hi.2];
            let (cb, rb) = discs[lo.2];
            let top = ct.y * (x1 - x0) + seg_integral(rt, x1 - ct.x) - seg_integral(rt, x0 - ct.x);
            let bot = cb.y * (x1 - x0) - (seg_integral(rb, x1 - cb.x) - seg_integral(rb, x0 - cb.x));
            *total += top - bot;
        };
        for k in 1..iv.len() {
            if iv[k].0 <= cur_hi.1 {
                if iv[k].1 > cur_hi.1 {
                    cur_hi = iv[k];
                }
            } else {
                flush(cur_lo, cur_hi, &mut total);
                cur_lo = iv[k];
                cur_hi = iv[k];
            }
        }
        flush(cur_lo, cur_hi, &mut total);
    }
    total
}

/// closed form: area of the union of two discs
pub fn two_disc_union_closed_form(r1: f64, r2: f64, d: f64) -> f64 {
    let a1 = PI * r1 * r1;
    let a2 = PI * r2 * r2;
    if d >= r1 + r2 {
        return a1 + a2;
    }
    if d <= (r1 - r2).abs() {
        return a1.max(a2);
    }
    let d1 = (d * d + r1 * r1 - r2 * r2) / (2. * d);
    let d2 = d - d1;
    let lens = r1 * r1 * (d1 / r1).acos() - d1 * (r1 * r1 - d1 * d1).sqrt() + r2 * r2 * (d2 / r2).acos() - d2 * (r2 * r2 - d2 * d2).sqrt();
    a1 + a2 - lens
}

// ------------------------------------------------------------------------------------------------
// crystal-level oracles

/// Worst (most negative) signed gap over all pairs of distinct shape images of the infinite tiling,
/// with the lattice index (n,m) and copy indices of the offending pair.
#[derive(Clone, Copy, Debug)]
pub struct WorstPair {
    pub gap: f64,
    pub i: usize,
    pub j: usize,
    pub n: i64,
    pub m: i64,
}

/// Exhaustive over every image whose centre lies within 2R(+margin) of a copy's centre.
/// `visit` is called for every candidate pair (i, j, n, m, gap).
pub fn tiling_pairs(shape: &OShape, lat: &Lattice, copies: &[Aff], mut visit: impl FnMut(usize, usize, i64, i64, f64, &OShape, &OShape)) {
    let r = shape.enclosing_radius();
    let rho = 2. * r + 1e-6;
    let placed: Vec<OShape> = copies.iter().map(|c| shape.transform(c)).collect();
    let mut buf = Vec::new();
    let a = lat.va();
    let b = lat.vb();
    for i in 0..copies.len() {
        for j in 0..copies.len() {
            buf.clear();
            let delta = copies[j].t.sub(copies[i].t);
            lattice_vectors_within(lat, delta, rho, &mut buf);
            for (n, m, _) in buf.iter() {
                if i == j && *n == 0 && *m == 0 {
                    continue;
                }
                // every unordered pair {(i,0),(j,L)} appears as (i,j,L) and (j,i,-L); keep one
                if j < i || (i == j && (*m < 0 || (*m == 0 && *n < 0))) {
                    continue;
                }
                let shift = a.scale(*n as f64).add(b.scale(*m as f64));
                let moved = Aff { l: copies[j].l, t: copies[j].t.add(shift) };
                let other = shape.transform(&moved);
                let g = placed[i].gap(&other);
                visit(i, j, *n, *m, g, &placed[i], &other);
            }
        }
    }
}

pub fn worst_pair(shape: &OShape, lat: &Lattice, copies: &[Aff]) -> Option<WorstPair> {
    let mut worst: Option<WorstPair> = None;
    tiling_pairs(shape, lat, copies, |i, j, n, m, g, _, _| {
        if worst.map(|w| g < w.gap).unwrap_or(true) {
            worst = Some(WorstPair { gap: g, i, j, n, m });
        }
    });
    worst
}

#[cfg(test)]
mod tests {
    use super::*;

    #[test]
    fn two_disc_union_matches_closed_form() {
        for &(r1, r2, d) in &[(1.0, 1.0, 0.5), (1.0, 0.7, 1.2), (1.0, 0.3, 0.2), (1.0, 0.5, 1.5), (1.0, 0.5, 3.0), (1., 1., 0.), (0.3, 1.2, 0.9)] {
            let u = union_area_discs(&[(P::new(0.1, -0.2), r1), (P::new(0.1 + d * 0.6, -0.2 + d * 0.8), r2)]);
            let c = two_disc_union_closed_form(r1, r2, d);
            assert!((u - c).abs() < 1e-12 * (1. + c), "{} {} {}: {} vs {}", r1, r2, d, u, c);
        }
    }

    #[test]
    fn three_disc_union_matches_grid() {
        let discs = trimer_discs(0.7, 60., 1.0);
        let u = union_area_discs(&discs);
        // midpoint grid
        let n = 2000;
        let (lo, hi) = (-2.5, 2.5);
        let h = (hi - lo) / n as f64;
        let mut cnt = 0u64;
        for i in 0..n {
            for j in 0..n {
                let p = P::new(lo + (i as f64 + 0.5) * h, lo + (j as f64 + 0.5) * h);
                if discs.iter().any(|(c, r)| p.sub(*c).norm2() < r * r) {
                    cnt += 1;
                }
            }
        }
        let g = cnt as f64 * h * h;
        assert!((u - g).abs() < 2e-3, "{} vs grid {}", u, g);
    }

    #[test]
    fn sat_squares() {
        let sq = |cx: f64, cy: f64| vec![P::new(cx - 1., cy - 1.), P::new(cx + 1., cy - 1.), P::new(cx + 1., cy + 1.), P::new(cx - 1., cy + 1.)];
        assert!((poly_gap(&sq(0., 0.), &sq(3., 0.)) - 1.0).abs() < 1e-12);
        assert!((poly_gap(&sq(0., 0.), &sq(1.5, 0.)) + 0.5).abs() < 1e-12);
        assert!((poly_gap(&sq(0., 0.), &sq(0., 0.)) + 2.0).abs() < 1e-12);
        assert!(edge_aligned(&sq(0., 0.), &sq(2., 0.5), 1e-9));
        assert!(!edge_aligned(&sq(0., 0.), &sq(2.5, 0.5), 1e-9));
    }

    #[test]
    fn lattice_enumeration_matches_brute_force() {
        let lat = Lattice::from_params(1.3, 0.4, 0.9);
        let delta = P::new(0.37, -0.21);
        let mut v = Vec::new();
        lattice_vectors_within(&lat, delta, 2.5, &mut v);
        let mut brute = 0;
        for n in -40..=40 {
            for m in -40..=40 {
                let p = delta.add(lat.va().scale(n as f64)).add(lat.vb().scale(m as f64));
                if p.norm2() < 2.5 * 2.5 {
                    brute += 1;
                }
            }
        }
        assert_eq!(v.len(), brute);
    }

    #[test]
    fn groups_closed() {
        for gi in 0..7 {
            let g = group(gi);
            for a in g.ops.iter() {
                for b in g.ops.iter() {
                    let c = a.mul(*b);
                    assert!(g.ops.iter().any(|o| o.l == c.l && circ_dist(o.t.x, c.t.x) < 1e-12 && circ_dist(o.t.y, c.t.y) < 1e-12));
                }
            }
        }
    }
}

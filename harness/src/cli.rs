//! Running the real `packing` binary (built from /repo's working tree by ./check).

use std::path::{Path, PathBuf};
use std::process::{Command, Stdio};
use std::sync::atomic::{AtomicU64, Ordering};

use serde::{Deserialize, Serialize};

use crate::engine::Ctx;

static COUNTER: AtomicU64 = AtomicU64::new(0);

#[derive(Clone, Debug)]
pub struct CliOut {
    pub status: Option<i32>,
    pub stderr: String,
    pub json: Option<String>,
    pub svg: Option<String>,
    pub timed_out: bool,
}

impl CliOut {
    pub fn final_score(&self) -> Option<f64> {
        for line in self.stderr.lines() {
            if let Some(pos) = line.find("Final score: ") {
                return line[pos + 13..].trim().parse::<f64>().ok();
            }
        }
        None
    }
    pub fn replica_scores(&self) -> Vec<Option<f64>> {
        let mut v = vec![];
        for line in self.stderr.lines() {
            if let Some(pos) = line.find("VERIF-REPLICA score=") {
                let rest = line[pos + 20..].trim();
                if rest.starts_with("None") {
                    v.push(None);
                } else if let Some(inner) = rest.strip_prefix("Some(").and_then(|r| r.strip_suffix(")")) {
                    v.push(inner.parse::<f64>().ok());
                }
            }
        }
        v
    }
    pub fn panicked(&self) -> bool {
        self.status == Some(101) || self.stderr.contains("panicked at")
    }
}

pub fn scratch_dir(ctx: &Ctx) -> PathBuf {
    let n = COUNTER.fetch_add(1, Ordering::SeqCst);
    let d = ctx.verif_dir.join("target").join("scratch").join(format!("{}-{}-{}", ctx.id, std::process::id(), n));
    let _ = std::fs::create_dir_all(&d);
    d
}

#[derive(Clone, Debug, Serialize, Deserialize, PartialEq)]
pub enum CliShape {
    Polygon { sides: Option<i64> },
    Circle,
    Trimer { distance: Option<f64>, angle: Option<f64>, radius: Option<f64> },
}

#[derive(Clone, Debug, Serialize, Deserialize, PartialEq)]
pub struct CliArgs {
    pub group: String,
    pub shape: CliShape,
    pub potential: Option<String>,
    pub replications: Option<i64>,
    pub steps: Option<i64>,
    pub inner_steps: Option<i64>,
    pub kt_start: Option<f64>,
    pub kt_finish: Option<f64>,
    pub kt_ratio: Option<f64>,
    pub max_step_size: Option<f64>,
    pub convergence: Option<f64>,
    /// number of -v flags
    #[serde(default)]
    pub verbosity: u8,
    /// --start-config <path> (accepted by the argument parser)
    #[serde(default)]
    pub start_config: Option<String>,
}

impl CliArgs {
    pub fn to_argv(&self, outfile: &Path) -> Vec<String> {
        let mut a: Vec<String> = vec![];
        for _ in 0..self.verbosity {
            a.push("-v".into());
        }
        if let Some(p) = &self.start_config {
            a.push("--start-config".into());
            a.push(p.clone());
        }
        if let Some(p) = &self.potential {
            a.push("--potential".into());
            a.push(p.clone());
        }
        if let Some(v) = self.replications {
            a.push("--replications".into());
            a.push(v.to_string());
        }
        if let Some(v) = self.steps {
            a.push("--steps".into());
            a.push(v.to_string());
        }
        if let Some(v) = self.inner_steps {
            a.push("--inner-steps".into());
            a.push(v.to_string());
        }
        if let Some(v) = self.kt_start {
            a.push(format!("--kt-start={}", v));
        }
        if let Some(v) = self.kt_finish {
            a.push(format!("--kt-finish={}", v));
        }
        if let Some(v) = self.kt_ratio {
            a.push(format!("--kt-ratio={}", v));
        }
        if let Some(v) = self.max_step_size {
            a.push(format!("--max-step-size={}", v));
        }
        if let Some(v) = self.convergence {
            a.push(format!("--convergence={}", v));
        }
        a.push("--outfile".into());
        a.push(outfile.to_string_lossy().to_string());
        a.push(self.group.clone());
        match &self.shape {
            CliShape::Polygon { sides } => {
                a.push("polygon".into());
                if let Some(s) = sides {
                    a.push(format!("--sides={}", s));
                }
            }
            CliShape::Circle => a.push("circle".into()),
            CliShape::Trimer { distance, angle, radius } => {
                a.push("trimer".into());
                if let Some(v) = distance {
                    a.push(format!("--distance={}", v));
                }
                if let Some(v) = angle {
                    a.push(format!("--angle={}", v));
                }
                if let Some(v) = radius {
                    a.push(format!("--radius={}", v));
                }
            }
        }
        a
    }
}

/// content of a previous run's output files, or None: decided by an FNV hash of the arguments and the thread count
fn stale_outputs(argv: &[String], outfile: &Path, threads: Option<usize>) -> Option<(String, String)> {
    let mut h: u64 = 0xcbf29ce484222325;
    let of = outfile.to_string_lossy().to_string();
    for a in argv.iter().filter(|a| **a != of) {
        for b in a.bytes() {
            h = (h ^ b as u64).wrapping_mul(0x100000001b3);
        }
        h = (h ^ 0xff).wrapping_mul(0x100000001b3);
    }
    h = (h ^ threads.unwrap_or(0) as u64).wrapping_mul(0x100000001b3);
    if (h >> 17) & 1 == 0 {
        return None;
    }
    let pad = "x".repeat(64 * 1024);
    Some((format!("{{\"stale\":\"left by an earlier run with the same --outfile\",\"pad\":\"{}\"}}\n", pad), format!("<svg xmlns=\"http://www.w3.org/2000/svg\"><!-- stale {} --></svg>\n", pad)))
}

/// run the binary with a hard time limit (a hang is reported as timed_out, never as a violation by itself)
pub fn run(ctx: &Ctx, argv: &[String], outfile: &Path, threads: Option<usize>, limit_s: u64) -> Result<CliOut, String> {
    let bin = ctx.cli_bin.clone().ok_or_else(|| "PVH_CLI_BIN is not set (the CLI binary is built by ./check)".to_string())?;
    let mut cmd = Command::new("timeout");
    cmd.arg("-k").arg("2").arg(limit_s.to_string()).arg(&bin);
    cmd.args(argv);
    cmd.env_remove("RUST_LOG");
    cmd.env("RUST_BACKTRACE", "0");
    match threads {
        Some(n) => {
            cmd.env("RAYON_NUM_THREADS", n.to_string());
        }
        None => {
            cmd.env("RAYON_NUM_THREADS", "2");
        }
    }
    cmd.stdin(Stdio::null()).stdout(Stdio::piped()).stderr(Stdio::piped());
    // A user re-runs with the same --outfile: for about half of the invocations (a pure function of the arguments and the
    // thread count) the two output files already exist and hold something longer than any result. What the run leaves
    // must be the new result only; a file that still holds exactly the old content counts as "not written".
    let stale = stale_outputs(argv, outfile, threads);
    if let Some((j, s)) = &stale {
        if !outfile.with_extension("json").exists() && !outfile.with_extension("svg").exists() {
            let _ = std::fs::write(outfile.with_extension("json"), j);
            let _ = std::fs::write(outfile.with_extension("svg"), s);
        }
    }
    let out = cmd.output().map_err(|e| format!("cannot run {}: {}", bin.display(), e))?;
    let status = out.status.code();
    let mut json = std::fs::read_to_string(outfile.with_extension("json")).ok();
    let mut svg = std::fs::read_to_string(outfile.with_extension("svg")).ok();
    if let Some((j, s)) = &stale {
        if json.as_deref() == Some(j.as_str()) {
            json = None;
        }
        if svg.as_deref() == Some(s.as_str()) {
            svg = None;
        }
    }
    Ok(CliOut { status, stderr: String::from_utf8_lossy(&out.stderr).to_string(), json, svg, timed_out: status == Some(124) || status == Some(137) })
}

pub fn run_args(ctx: &Ctx, args: &CliArgs, threads: Option<usize>) -> Result<CliOut, String> {
    let dir = scratch_dir(ctx);
    let outfile = dir.join("out");
    let r = run(ctx, &args.to_argv(&outfile), &outfile, threads, 120);
    let _ = std::fs::remove_dir_all(&dir);
    r
}

//! States with several occupied sites: `PackedState::initialise` / `PotentialState::initialise` accept a slice of
//! Wyckoff sites, so a crystal with k molecules per asymmetric unit is a state every public constructor can build.
//! The oracles only need the list of placed copies, which is the union over the sites.

use std::f64::consts::PI;

use packing::traits::{Intersect, Potential, Shape};
use packing::wallpaper::{Wallpaper, WallpaperGroup, WyckoffSite};
use packing::{LJShape2, LineShape, MolecularShape2, PackedState, PotentialState};
use proptest::prelude::*;
use serde::de::DeserializeOwned;
use serde::{Deserialize, Serialize};
use serde_json::json;

use crate::gen::{is_oblique, mixf};
use crate::geom::{self, Aff, Lattice, OShape};
use crate::statejson::{self, lj_shape, line_shape, mol_shape, oshape_from_spec, ShapeSpec};

#[derive(Clone, Debug, Serialize, Deserialize, PartialEq)]
pub struct MultiSpec {
    pub group: usize,
    pub shape: ShapeSpec,
    pub length: f64,
    pub ratio: f64,
    pub angle: f64,
    /// (x, y, orientation) of each occupied site
    pub sites: Vec<(f64, f64, f64)>,
}

impl MultiSpec {
    pub fn lattice(&self) -> Lattice {
        Lattice::from_params(self.length, self.ratio, self.angle)
    }
    /// every placed copy of the cell: site by site, operation by operation (the harness's own table and lattice)
    pub fn copies(&self) -> Vec<Aff> {
        let g = geom::group(self.group);
        let lat = self.lattice();
        let mut v = vec![];
        for (x, y, phi) in self.sites.iter() {
            v.extend(geom::site_copies_cartesian(&g, &lat, *x, *y, *phi));
        }
        v
    }
    pub fn describe(&self) -> String {
        format!("group {}, cell length {}, ratio {}, angle {}, sites {:?}", geom::GROUP_NAMES[self.group], self.length, self.ratio, self.angle, self.sites)
    }
}

fn patch<T: Serialize + DeserializeOwned>(template: &T, spec: &MultiSpec) -> Result<T, String> {
    let mut v = serde_json::to_value(template).map_err(|e| e.to_string())?;
    v["cell"]["length"] = json!(spec.length);
    v["cell"]["ratio"] = json!(spec.ratio);
    v["cell"]["angle"] = json!(spec.angle);
    let sites = v["occupied_sites"].as_array_mut().ok_or("state JSON lacks occupied_sites")?;
    if sites.len() != spec.sites.len() {
        return Err(format!("initialise() with {} Wyckoff sites produced {} occupied sites", spec.sites.len(), sites.len()));
    }
    for (s, (x, y, phi)) in sites.iter_mut().zip(spec.sites.iter()) {
        s["x"] = json!(x);
        s["y"] = json!(y);
        s["angle"] = json!(phi);
    }
    serde_json::from_value(v).map_err(|e| e.to_string())
}

fn wyckoffs(wg: &WallpaperGroup, k: usize) -> Result<(Wallpaper, Vec<WyckoffSite>), String> {
    let site = WyckoffSite::new(wg).map_err(|e| e.to_string())?;
    Ok((Wallpaper::new(wg), vec![site; k]))
}

pub fn packed_line(spec: &MultiSpec) -> Result<PackedState<LineShape>, String> {
    packed_line_in(&statejson::wg(spec.group), spec)
}
pub fn packed_mol(spec: &MultiSpec) -> Result<PackedState<MolecularShape2>, String> {
    packed_mol_in(&statejson::wg(spec.group), spec)
}
pub fn potential(spec: &MultiSpec) -> Result<PotentialState<LJShape2>, String> {
    potential_in(&statejson::wg(spec.group), spec)
}

/// the same for any group description (user-built groups: all fields of WallpaperGroup are public); `spec.group` is ignored
pub fn packed_line_in(wg: &WallpaperGroup, spec: &MultiSpec) -> Result<PackedState<LineShape>, String> {
    let shape = line_shape(&spec.shape).ok_or("not a line shape")?;
    let (w, sites) = wyckoffs(wg, spec.sites.len())?;
    patch(&PackedState::initialise(shape, w, &sites), spec)
}

pub fn packed_mol_in(wg: &WallpaperGroup, spec: &MultiSpec) -> Result<PackedState<MolecularShape2>, String> {
    let shape = mol_shape(&spec.shape).ok_or("not a molecular shape")?;
    let (w, sites) = wyckoffs(wg, spec.sites.len())?;
    patch(&PackedState::initialise(shape, w, &sites), spec)
}

pub fn potential_in(wg: &WallpaperGroup, spec: &MultiSpec) -> Result<PotentialState<LJShape2>, String> {
    let shape = lj_shape(&spec.shape).ok_or("not an LJ shape")?;
    let (w, sites) = wyckoffs(wg, spec.sites.len())?;
    patch(&PotentialState::initialise(shape, w, &sites), spec)
}

/// user-built groups of the square system (their fractional matrices are rigid motions of a square cell):
/// (description for the package, the harness's own matrices)
pub fn custom_group(index: usize) -> (WallpaperGroup<'static>, Vec<Aff>) {
    use crate::geom::{Lin, P};
    let op = |a: f64, b: f64, c: f64, d: f64, tx: f64, ty: f64| Aff { l: Lin { a, b, c, d }, t: P::new(tx, ty) };
    match index % 4 {
        0 => (
            statejson::custom_wallpaper_group("p4", packing::CrystalFamily::Tetragonal, vec!["x,y", "-y,x", "-x,-y", "y,-x"]),
            vec![op(1., 0., 0., 1., 0., 0.), op(0., -1., 1., 0., 0., 0.), op(-1., 0., 0., -1., 0., 0.), op(0., 1., -1., 0., 0., 0.)],
        ),
        1 => (
            statejson::custom_wallpaper_group("p4mm", packing::CrystalFamily::Tetragonal, vec!["x,y", "-x,-y", "-y,x", "y,-x", "-x,y", "x,-y", "y,x", "-y,-x"]),
            vec![
                op(1., 0., 0., 1., 0., 0.),
                op(-1., 0., 0., -1., 0., 0.),
                op(0., -1., 1., 0., 0., 0.),
                op(0., 1., -1., 0., 0., 0.),
                op(-1., 0., 0., 1., 0., 0.),
                op(1., 0., 0., -1., 0., 0.),
                op(0., 1., 1., 0., 0., 0.),
                op(0., -1., -1., 0., 0., 0.),
            ],
        ),
        3 => (
            // a two-fold axis is compatible with every lattice: here in a cell of the hexagonal family
            statejson::custom_wallpaper_group("p2-hexagonal", packing::CrystalFamily::Hexagonal, vec!["x,y", "-x,-y"]),
            vec![op(1., 0., 0., 1., 0., 0.), op(-1., 0., 0., -1., 0., 0.)],
        ),
        _ => (
            statejson::custom_wallpaper_group("c1m1", packing::CrystalFamily::Orthorhombic, vec!["x,y", "-x,y", "x+1/2,y+1/2", "-x+1/2,y+1/2"]),
            vec![op(1., 0., 0., 1., 0., 0.), op(-1., 0., 0., 1., 0., 0.), op(1., 0., 0., 1., 0.5, 0.5), op(-1., 0., 0., 1., 0.5, 0.5)],
        ),
    }
}

/// fractional placements of every copy for an explicit operation table
pub fn copies_fractional(ops: &[Aff], sites: &[(f64, f64, f64)]) -> Vec<Aff> {
    let g = geom::Group { name: "custom", family: geom::Family::Rectangular, ops: ops.to_vec() };
    let mut v = vec![];
    for (x, y, phi) in sites.iter() {
        v.extend(geom::site_copies_fractional(&g, *x, *y, *phi));
    }
    v
}

/// cell from a target packing fraction (per_copy = cell area per copy in units of the shape's area) and 1..kmax sites
pub fn multi_strat(shape: BoxedStrategy<ShapeSpec>, frac_lo: f64, frac_hi: f64, kmin: usize, kmax: usize) -> BoxedStrategy<MultiSpec> {
    (0usize..7, shape, kmin..=kmax)
        .prop_flat_map(move |(group, shape, k)| {
            let n = (geom::group(group).ops.len() * k) as f64;
            let os: OShape = oshape_from_spec(&shape);
            let area = {
                let a = os.area();
                if a.is_finite() && a > 0. {
                    a
                } else {
                    PI
                }
            };
            let angle = if is_oblique(group) { mixf(PI / 6., PI / 2., vec![PI / 2., PI / 3.]) } else { Just(PI / 2.).boxed() };
            let site = (mixf(-0.5, 0.5, vec![0., 0.25, -0.25]), mixf(-0.5, 0.5, vec![0., 0.25, -0.25]), mixf(0., 2. * PI, vec![0., PI, PI / 2.]));
            (frac_lo..=frac_hi, mixf(0.1, 1.0, vec![1.0, 0.5]), angle, proptest::collection::vec(site, k)).prop_map(move |(frac, ratio, angle, sites)| {
                let length = (n * area / (frac * ratio * angle.sin())).sqrt();
                MultiSpec { group, shape: shape.clone(), length, ratio, angle, sites }
            })
        })
        .boxed()
}

/// score of a hard multi-site state together with the geometry the code built
pub fn hard_score(spec: &MultiSpec) -> Result<(Option<f64>, OShape, usize), String> {
    use packing::traits::State;
    match &spec.shape {
        ShapeSpec::Polygon { .. } | ShapeSpec::Radial { .. } => {
            let s = packed_line(spec)?;
            Ok((s.score(), statejson::oshape_of_line(&s.shape), s.total_shapes()))
        }
        _ => {
            let s = packed_mol(spec)?;
            Ok((s.score(), statejson::oshape_of_mol(&s.shape), s.total_shapes()))
        }
    }
}

#[allow(dead_code)]
fn _bounds<S: Shape + Intersect, P: Potential>() {}

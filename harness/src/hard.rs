//! Helpers shared by the hard-packing properties (C01, C02, C04, C08): a shape-kind-erased fast state
//! template and the exhaustive tiling oracle.

use packing::traits::State;
use packing::{LineShape, MolecularShape2, PackedState};

use crate::geom::{self, Lattice, OShape, WorstPair};
use crate::statejson::{self, oshape_of_line, oshape_of_mol, Params, ShapeSpec, StateSpec, Tmpl};

pub enum HardTmpl {
    Line(Tmpl<PackedState<LineShape>>, OShape),
    Mol(Tmpl<PackedState<MolecularShape2>>, OShape),
}

impl HardTmpl {
    pub fn new(group: usize, shape: &ShapeSpec) -> Result<HardTmpl, String> {
        match shape {
            ShapeSpec::Polygon { .. } | ShapeSpec::Radial { .. } => {
                let t = statejson::tmpl_packed_line(group, shape)?;
                let os = oshape_of_line(&t.state().shape);
                Ok(HardTmpl::Line(t, os))
            }
            _ => {
                let t = statejson::tmpl_packed_mol(group, shape)?;
                let os = oshape_of_mol(&t.state().shape);
                Ok(HardTmpl::Mol(t, os))
            }
        }
    }
    /// the geometry the package built for this shape
    pub fn oshape(&self) -> &OShape {
        match self {
            HardTmpl::Line(_, o) => o,
            HardTmpl::Mol(_, o) => o,
        }
    }
    /// returns the parameter values in force after the package's clamping
    pub fn set(&mut self, p: &Params) -> Params {
        match self {
            HardTmpl::Line(t, _) => t.set(p),
            HardTmpl::Mol(t, _) => t.set(p),
        }
    }
    pub fn score(&self) -> Option<f64> {
        match self {
            HardTmpl::Line(t, _) => t.state().score(),
            HardTmpl::Mol(t, _) => t.state().score(),
        }
    }
    pub fn shape_area(&self) -> f64 {
        use packing::traits::Intersect;
        match self {
            HardTmpl::Line(t, _) => t.state().shape.area(),
            HardTmpl::Mol(t, _) => t.state().shape.area(),
        }
    }
    pub fn has_angle_freedom(&self) -> bool {
        match self {
            HardTmpl::Line(t, _) => t.has_field(2),
            HardTmpl::Mol(t, _) => t.has_field(2),
        }
    }
}

pub fn oshape_usable(os: &OShape) -> bool {
    match os {
        OShape::Poly(v) => v.len() >= 3 && geom::is_convex(v),
        OShape::Discs(d) => !d.is_empty() && d.iter().all(|(c, r)| r.is_finite() && *r > 0. && c.x.is_finite() && c.y.is_finite()),
    }
}

/// worst signed gap over the whole tiling, from the harness's own group table, lattice and SAT
pub fn oracle_worst(os: &OShape, group: usize, p: &Params) -> Option<WorstPair> {
    let g = geom::group(group);
    let lat = Lattice::from_params(p.length, p.ratio, p.angle);
    let copies = geom::site_copies_cartesian(&g, &lat, p.x, p.y, p.phi);
    geom::worst_pair(os, &lat, &copies)
}

/// Route 1 score for a full spec (used by replays and history parts)
pub fn score_of_spec(spec: &StateSpec) -> Result<(Option<f64>, OShape), String> {
    match &spec.shape {
        ShapeSpec::Polygon { .. } | ShapeSpec::Radial { .. } => {
            let s = statejson::packed_line(spec)?;
            Ok((s.score(), oshape_of_line(&s.shape)))
        }
        _ => {
            let s = statejson::packed_mol(spec)?;
            Ok((s.score(), oshape_of_mol(&s.shape)))
        }
    }
}

//! Shared proptest strategies.  Every random choice of every check is made here or in a property module's
//! own strategies — never by an RNG of the harness.

use std::f64::consts::PI;

use proptest::prelude::*;
use proptest::sample::select;

use crate::geom::{self, OShape};
use crate::statejson::{oshape_from_spec, Params, ShapeSpec, StateSpec};

/// interior uniform / exactly on a bound / within 1e-12 (relative) of a bound / listed special values
pub fn mixf(lo: f64, hi: f64, special: Vec<f64>) -> BoxedStrategy<f64> {
    let span = hi - lo;
    let special = if special.is_empty() { vec![lo + 0.5 * span] } else { special };
    prop_oneof![
        10 => (lo..=hi),
        1 => Just(lo),
        1 => Just(hi),
        // within 1e-15 .. 1e-2 (log-uniform, relative to the range) of a bound
        1 => (-15.0..-2.0f64).prop_map(move |e| lo + 10f64.powf(e) * span),
        1 => (-15.0..-2.0f64).prop_map(move |e| hi - 10f64.powf(e) * span),
        1 => select(special),
    ]
    .boxed()
}

pub fn group_idx() -> BoxedStrategy<usize> {
    (0usize..7).boxed()
}

pub fn convex_radial() -> BoxedStrategy<ShapeSpec> {
    (3usize..=9)
        .prop_flat_map(|n| {
            let c = (2. * PI / n as f64).cos();
            let lo = (c + 0.05 * (1. - c)).max(0.3);
            proptest::collection::vec(lo..=1.0f64, n)
        })
        .prop_map(|radii| ShapeSpec::Radial { radii })
        .boxed()
}

pub fn line_shape_spec() -> BoxedStrategy<ShapeSpec> {
    prop_oneof![
        12 => (3usize..=12).prop_map(|sides| ShapeSpec::Polygon { sides }),
        1 => proptest::sample::select(vec![16usize, 24, 37, 64]).prop_map(|sides| ShapeSpec::Polygon { sides }),
        4 => convex_radial(),
    ]
    .boxed()
}

/// trimers over the physically meaningful box, including the CLI default, triple overlaps, containment,
/// distance 0
pub fn trimer_spec() -> BoxedStrategy<ShapeSpec> {
    let usual = (
        mixf(0.05, 1.5, vec![0.637556, 0.7, 1.0, 0.5]),
        mixf(0., 180., vec![120., 60., 90., 180., 0.]),
        mixf(0., 2.5, vec![1.0, 0.0, 0.3, 2.0]),
    )
        .prop_map(|(radius, angle, distance)| ShapeSpec::Trimer { radius, angle, distance });
    // legal but unusual: large outer discs, long arms, tiny discs
    let unusual = (prop_oneof![1.5..4.0f64, 0.001..0.05f64], mixf(0., 180., vec![120.]), prop_oneof![2.5..6.0f64, 0.0..0.01f64]).prop_map(|(radius, angle, distance)| ShapeSpec::Trimer { radius, angle, distance });
    prop_oneof![12 => usual, 1 => unusual].boxed()
}

/// trimers whose three discs have a well-defined union boundary for the *package's* formula domain:
/// no restriction — the same box as above (kept as a separate name for readability)
pub fn mol_shape_spec() -> BoxedStrategy<ShapeSpec> {
    prop_oneof![
        1 => Just(ShapeSpec::Circle),
        4 => trimer_spec(),
    ]
    .boxed()
}

pub fn is_oblique(group: usize) -> bool {
    group < 2
}

/// cell + site from a target packing fraction (so that dense and dilute states both occur)
pub fn params_by_fraction(group: usize, shape: &ShapeSpec, frac_lo: f64, frac_hi: f64) -> BoxedStrategy<Params> {
    let n = geom::group(group).ops.len() as f64;
    let os: OShape = oshape_from_spec(shape);
    let area = {
        let a = os.area();
        if a.is_finite() && a > 0. {
            a
        } else {
            PI
        }
    };
    let angle = if is_oblique(group) { mixf(PI / 6., PI / 2., vec![PI / 2., PI / 3.]) } else { Just(PI / 2.).boxed() };
    (
        frac_lo..=frac_hi,
        mixf(0.1, 1.0, vec![1.0, 0.5]),
        angle,
        mixf(-0.5, 0.5, vec![0., 0.25, -0.25]),
        mixf(-0.5, 0.5, vec![0., 0.25, -0.25]),
        mixf(0., 2. * PI, vec![0., PI, PI / 2.]),
    )
        .prop_map(move |(frac, ratio, angle, x, y, phi)| {
            // frac = n*area / (L^2 ratio sin(angle))
            let length = (n * area / (frac * ratio * angle.sin())).sqrt();
            Params { length, ratio, angle, x, y, phi }
        })
        .boxed()
}

pub fn hard_line_state(frac_lo: f64, frac_hi: f64) -> BoxedStrategy<StateSpec> {
    (group_idx(), line_shape_spec())
        .prop_flat_map(move |(group, shape)| {
            let s2 = shape.clone();
            params_by_fraction(group, &shape, frac_lo, frac_hi).prop_map(move |p| StateSpec { group, shape: s2.clone(), p })
        })
        .boxed()
}

pub fn hard_mol_state(frac_lo: f64, frac_hi: f64) -> BoxedStrategy<StateSpec> {
    (group_idx(), mol_shape_spec())
        .prop_flat_map(move |(group, shape)| {
            let s2 = shape.clone();
            params_by_fraction(group, &shape, frac_lo, frac_hi).prop_map(move |p| StateSpec { group, shape: s2.clone(), p })
        })
        .boxed()
}

//! Reader for /verif/KNOWN_FINDINGS.txt.  The file is never written at run time.
//!
//!   known: property=C12 sig=aligned-edges  <what fails>
//!   fixed: property=C10 <commit> <what failed>
//!
//! `sig` names a predicate compiled into the property's oracle; only violations whose input satisfies a
//! listed signature are downgraded to KNOWN-FINDING.  `fixed:` lines suppress nothing.

use std::collections::BTreeSet;
use std::fs;
use std::path::Path;

#[derive(Clone, Default)]
pub struct Known {
    listed: BTreeSet<(String, String)>,
}

impl Known {
    pub fn load(path: &Path) -> Known {
        let mut listed = BTreeSet::new();
        if let Ok(text) = fs::read_to_string(path) {
            for line in text.lines() {
                let line = line.trim();
                if !line.starts_with("known:") {
                    continue;
                }
                let mut prop = None;
                let mut sig = None;
                for tok in line.split_whitespace() {
                    if let Some(p) = tok.strip_prefix("property=") {
                        prop = Some(p.to_string());
                    }
                    if let Some(s) = tok.strip_prefix("sig=") {
                        sig = Some(s.to_string());
                    }
                }
                if let (Some(p), Some(s)) = (prop, sig) {
                    listed.insert((p, s));
                }
            }
        }
        Known { listed }
    }
    pub fn listed(&self, prop: &str, sig: &str) -> bool {
        self.listed.contains(&(prop.to_string(), sig.to_string()))
    }
}

//! Evidence accumulation and the /verif/evidence/<id>.json writer.

use std::collections::{BTreeMap, HashSet};
use std::fs;
use std::time::Instant;

use serde_json::{json, Value};

use crate::engine::{hash_json, Ctx, Failure, Merged, Tier};

pub struct Evidence {
    pub id: &'static str,
    pub rule: String,
    pub assumptions: Vec<String>,
    pub evaluations: u64,
    pub cases: u64,
    pub nontrivial_total: u64,
    nontrivial: HashSet<(String, u64)>,
    pub classes: BTreeMap<String, u64>,
    pub samples: Vec<Value>,
    pub known: BTreeMap<String, (u64, String)>,
    pub counters: BTreeMap<String, f64>,
    pub violations: Vec<(String, String)>,
    pub per_part: BTreeMap<String, Value>,
    pub exhaustive: Option<bool>,
    pub extra: BTreeMap<String, Value>,
    start: Instant,
}

impl Evidence {
    pub fn new(id: &'static str) -> Evidence {
        Evidence {
            id,
            rule: String::new(),
            assumptions: vec![],
            evaluations: 0,
            cases: 0,
            nontrivial_total: 0,
            nontrivial: HashSet::new(),
            classes: BTreeMap::new(),
            samples: vec![],
            known: BTreeMap::new(),
            counters: BTreeMap::new(),
            violations: vec![],
            per_part: BTreeMap::new(),
            exhaustive: None,
            extra: BTreeMap::new(),
            start: Instant::now(),
        }
    }

    /// development aid (PVH_CLASSES=1): the class counts of this run on stderr
    pub fn print_classes(&self) {
        for (k, v) in self.classes.iter() {
            eprintln!("  class {:<70} {}", k, v);
        }
    }

    pub fn absorb_part(&mut self, part: &str, m: &Merged) {
        self.evaluations += m.evals;
        self.cases += m.cases;
        self.nontrivial_total += m.nontrivial_total;
        for k in m.nontrivial.iter() {
            self.nontrivial.insert((part.to_string(), *k));
        }
        for (k, v) in m.classes.iter() {
            *self.classes.entry(format!("{}/{}", part, k)).or_insert(0) += v;
        }
        for (k, v) in m.samples.iter() {
            for s in v {
                self.samples.push(json!({"part": part, "class": k, "case": s}));
            }
        }
        for (k, v) in m.known.iter() {
            let e = self.known.entry(k.clone()).or_insert_with(|| (0, v.1.clone()));
            e.0 += v.0;
        }
        for (k, v) in m.counters.iter() {
            let key = format!("{}/{}", part, k);
            let e = self.counters.entry(key).or_insert(f64::NEG_INFINITY);
            if *v > *e {
                *e = *v;
            }
        }
        let prev = self.per_part.get(part).cloned().unwrap_or(json!({"generated_cases":0,"oracle_evaluations":0,"nontrivial":0}));
        self.per_part.insert(
            part.to_string(),
            json!({
                "generated_cases": prev["generated_cases"].as_u64().unwrap_or(0) + m.cases,
                "oracle_evaluations": prev["oracle_evaluations"].as_u64().unwrap_or(0) + m.evals,
                "nontrivial": prev["nontrivial"].as_u64().unwrap_or(0) + m.nontrivial_total,
            }),
        );
    }

    pub fn report_violation(&mut self, ctx: &Ctx, f: Failure) {
        let dir = ctx.verif_dir.join("replays");
        let _ = fs::create_dir_all(&dir);
        let body = json!({
            "property": self.id,
            "part": f.part,
            "case": f.case,
            "message": f.message,
            "seed": ctx.seed,
            "tier": if ctx.tier == Tier::Quick { "quick" } else { "thorough" },
        });
        let h = hash_json(&json!([self.id, f.part, f.case]));
        let path = dir.join(format!("{}-{}-{:016x}.json", self.id, f.part, h));
        let _ = fs::write(&path, serde_json::to_string_pretty(&body).unwrap());
        println!("VIOLATION property={} replay={}", self.id, path.display());
        println!("  part={} message={}", f.part, f.message);
        println!("  case={}", f.case);
        self.violations.push((f.part.clone(), f.message.clone()));
    }

    pub fn print_known(&self) {
        for (sig, (n, what)) in self.known.iter() {
            println!("KNOWN-FINDING: property={} sig={} occurrences={} {}", self.id, sig, n, what);
        }
    }

    pub fn distinct_nontrivial(&self) -> u64 {
        self.nontrivial.len() as u64
    }

    pub fn write(&self, ctx: &Ctx) -> std::io::Result<()> {
        let dir = ctx.verif_dir.join("evidence");
        fs::create_dir_all(&dir)?;
        let mut samples = self.samples.clone();
        // keep the file readable: at most 40 samples, spread over classes (they are already <=2 per class per part)
        if samples.len() > 40 {
            let step = samples.len() as f64 / 40.0;
            samples = (0..40).map(|i| samples[(i as f64 * step) as usize].clone()).collect();
        }
        let mut coverage = json!({
            "evaluations": self.evaluations,
            "generated_cases": self.cases,
            "distinct_nontrivial": self.distinct_nontrivial(),
            "nontrivial_total_counted": self.nontrivial_total,
            "distinct_counting": format!("distinct = distinct hashes of the defining values of non-trivial cases, tracked up to {} per shard and part (a cap makes the number conservative)", crate::engine::NT_CAP),
            "rule": self.rule,
            "samples": samples,
            "class_histogram": self.classes,
            "per_part": self.per_part,
            "excluded_known": self.known.iter().map(|(k,v)| (k.clone(), json!({"count": v.0, "what": v.1}))).collect::<BTreeMap<_,_>>(),
            "maxima": self.counters,
        });
        if let Some(e) = self.exhaustive {
            coverage["exhaustive"] = json!(e);
        }
        for (k, v) in self.extra.iter() {
            coverage[k] = v.clone();
        }
        let doc = json!({
            "property_id": self.id,
            "tier": if ctx.tier == Tier::Quick { "quick" } else { "thorough" },
            "seed": ctx.seed,
            "level": "exploration",
            "coverage": coverage,
            "assumptions": self.assumptions,
            "wall_s": self.start.elapsed().as_secs_f64(),
            "violations": self.violations.len(),
            "violation_messages": self.violations.iter().map(|(p,m)| format!("{}: {}", p, m)).collect::<Vec<_>>(),
        });
        fs::write(dir.join(format!("{}.json", self.id)), serde_json::to_string_pretty(&doc).unwrap())
    }
}

//! Structures written by the pinned version of the package, kept as files (/verif/golden/*.json): a state that users saved
//! yesterday is still a state today, so the score oracles also judge every stored file that still reads.  A file that no
//! longer deserialises is counted and reported as a note, never as a violation (a format may be retired on purpose);
//! a file that reads but scores differently from the crystal it describes is a violation of the score property.

use proptest::strategy::{Strategy, ValueTree};
use proptest::test_runner::{Config, RngAlgorithm, TestRng, TestRunner};
use serde::{Deserialize, Serialize};
use serde_json::json;

use crate::engine::{custom_part, fail_case, Ctx, Merged, PartDef, Rec};
use crate::evidence::Evidence;
use crate::multisite::{self, MultiSpec};

#[derive(Clone, Debug, Serialize, Deserialize)]
pub struct GoldenEntry {
    /// "HardLine" | "HardMol" | "Lj"
    pub kind: String,
    pub spec: MultiSpec,
    /// serde_json::to_string of the state, as written by the package at the pinned commit (+ the recorded fix commits)
    pub text: String,
}

pub fn load(ctx: &Ctx, file: &str) -> Result<Vec<GoldenEntry>, String> {
    let path = ctx.verif_dir.join("golden").join(file);
    let text = std::fs::read_to_string(&path).map_err(|e| format!("cannot read {}: {}", path.display(), e))?;
    serde_json::from_str(&text).map_err(|e| format!("{} is not a list of golden entries: {}", path.display(), e))
}

pub type Judge = fn(&GoldenEntry, &Rec, &Ctx) -> Result<(), String>;

/// every entry of the file, once
pub fn golden_part(name: &'static str, file: &'static str, judge: Judge) -> PartDef {
    custom_part(
        name,
        move |ctx: &Ctx, ev: &mut Evidence| {
            let entries = match load(ctx, file) {
                Ok(e) => e,
                Err(e) => {
                    eprintln!("HARNESS-NOTE: {} (part {} skipped)", e, name);
                    return;
                }
            };
            let mut m = Merged::default();
            for (i, e) in entries.iter().enumerate() {
                let rec = Rec::new();
                let res = std::panic::catch_unwind(std::panic::AssertUnwindSafe(|| judge(e, &rec, ctx))).unwrap_or_else(|_| Err("the oracle or the package panicked on this stored structure".to_string()));
                m.absorb(&rec, 1);
                if let Err(msg) = res {
                    ev.absorb_part(name, &m);
                    m = Merged::default();
                    fail_case(ctx, ev, name, json!({"file": file, "index": i}), format!("stored structure #{} of golden/{}: {}", i, file, msg));
                }
            }
            ev.absorb_part(name, &m);
        },
        move |v, rec, ctx| {
            let i = v["index"].as_u64().ok_or("replay case lacks index")? as usize;
            let entries = load(ctx, file)?;
            let e = entries.get(i).ok_or("index beyond the golden file")?;
            judge(e, rec, ctx)
        },
    )
}

/// one-off tool (`pvh GOLDEN`): writes the files from generated specifications with the package as it is now
pub fn write(verif_dir: &std::path::Path) -> Result<(), String> {
    let dir = verif_dir.join("golden");
    std::fs::create_dir_all(&dir).map_err(|e| e.to_string())?;
    let mut runner = TestRunner::new_with_rng(Config::default(), TestRng::from_seed(RngAlgorithm::ChaCha, &[7u8; 32]));
    let mut hard: Vec<GoldenEntry> = vec![];
    let mut lj: Vec<GoldenEntry> = vec![];
    let hard_strat = multisite::multi_strat(proptest::prop_oneof![crate::gen::line_shape_spec(), crate::gen::mol_shape_spec()].boxed(), 0.02, 0.5, 1, 3);
    let lj_strat = multisite::multi_strat(crate::gen::mol_shape_spec(), 0.05, 0.9, 1, 3);
    let mut tries = 0;
    while hard.len() < 400 && tries < 200_000 {
        tries += 1;
        let spec = hard_strat.new_tree(&mut runner).map_err(|e| e.to_string())?.current();
        let (score, _, _) = multisite::hard_score(&spec)?;
        if score.is_none() {
            continue;
        }
        let (kind, text) = match &spec.shape {
            crate::statejson::ShapeSpec::Polygon { .. } | crate::statejson::ShapeSpec::Radial { .. } => ("HardLine", serde_json::to_string(&multisite::packed_line(&spec)?).map_err(|e| e.to_string())?),
            _ => ("HardMol", serde_json::to_string(&multisite::packed_mol(&spec)?).map_err(|e| e.to_string())?),
        };
        hard.push(GoldenEntry { kind: kind.to_string(), spec, text });
    }
    while lj.len() < 300 {
        let spec = lj_strat.new_tree(&mut runner).map_err(|e| e.to_string())?.current();
        let text = serde_json::to_string(&multisite::potential(&spec)?).map_err(|e| e.to_string())?;
        lj.push(GoldenEntry { kind: "Lj".to_string(), spec, text });
    }
    std::fs::write(dir.join("hard.json"), serde_json::to_string(&hard).map_err(|e| e.to_string())?).map_err(|e| e.to_string())?;
    std::fs::write(dir.join("lj.json"), serde_json::to_string(&lj).map_err(|e| e.to_string())?).map_err(|e| e.to_string())?;
    println!("wrote {} hard and {} LJ structures to {}", hard.len(), lj.len(), dir.display());
    Ok(())
}

//! Shared optimiser-side machinery: configurations, policies for `Script`, run helpers.

use std::panic::{catch_unwind, AssertUnwindSafe};

use packing::traits::State;
use packing::{BuildOptimiser, MCOptimiser};
use proptest::prelude::*;
use serde::{Deserialize, Serialize};
use structopt::StructOpt;

use crate::probe::{new_brain, CallInfo, Cand, Decision, Model, Policy, Script, SharedBrain, StepRec};

/// f64 that survives JSON when it is not finite (serde_json writes null for inf / NaN): "inf", "-inf", "nan"
pub mod f64_any {
    use serde::{Deserialize, Deserializer, Serializer};
    pub fn serialize<S: Serializer>(v: &f64, s: S) -> Result<S::Ok, S::Error> {
        if v.is_finite() {
            s.serialize_f64(*v)
        } else if v.is_nan() {
            s.serialize_str("nan")
        } else if *v > 0. {
            s.serialize_str("inf")
        } else {
            s.serialize_str("-inf")
        }
    }
    pub fn deserialize<'de, D: Deserializer<'de>>(d: D) -> Result<f64, D::Error> {
        let v = serde_json::Value::deserialize(d)?;
        match &v {
            serde_json::Value::Number(n) => n.as_f64().ok_or_else(|| serde::de::Error::custom("number")),
            serde_json::Value::String(t) if t == "inf" => Ok(f64::INFINITY),
            serde_json::Value::String(t) if t == "-inf" => Ok(f64::NEG_INFINITY),
            serde_json::Value::String(t) if t == "nan" => Ok(f64::NAN),
            _ => Err(serde::de::Error::custom("expected a number or inf/-inf/nan")),
        }
    }
}

#[derive(Clone, Debug, Serialize, Deserialize, PartialEq)]
pub struct OptCfg {
    pub steps: u64,
    pub inner: u64,
    #[serde(with = "f64_any")]
    pub kt_start: f64,
    pub kt_finish: Option<f64>,
    pub kt_ratio: Option<f64>,
    pub max_step: f64,
    pub convergence: Option<f64>,
    pub seed: u64,
}

impl OptCfg {
    pub fn inner_eff(&self) -> u64 {
        self.inner.min(self.steps)
    }
    pub fn loops(&self) -> u64 {
        let i = self.inner_eff();
        if i == 0 {
            0
        } else {
            self.steps / i
        }
    }
    pub fn proposals(&self) -> u64 {
        self.loops() * self.inner_eff()
    }
    pub fn builder(&self) -> BuildOptimiser {
        // StructOpt parsing is the only public way to obtain kt_finish = None (the CLI default)
        let mut b = BuildOptimiser::from_iter(vec!["pvh"]);
        b.steps(self.steps).inner_steps(self.inner).kt_start(self.kt_start).kt_ratio(self.kt_ratio).max_step_size(self.max_step).convergence(self.convergence).seed(self.seed);
        if let Some(f) = self.kt_finish {
            b.kt_finish(f);
        }
        b
    }
    pub fn build(&self) -> MCOptimiser {
        self.builder().build()
    }
}

/// steps in [1, max_steps], inner so that 1..max_loops loops occur, including non-multiples and inner > steps
pub fn steps_inner(max_steps: u64, max_loops: u64) -> BoxedStrategy<(u64, u64)> {
    (1u64..=max_steps, prop_oneof![3 => 1u64..=max_loops.min(12), 1 => 1u64..=max_loops], 0u64..4, any::<u16>())
        .prop_map(move |(steps, loops, mode, jitter)| {
            let base = (steps / loops).max(1);
            let inner = match mode {
                0 => base,
                1 => base + (jitter as u64 % (base / 4 + 1)),
                2 => steps + (jitter as u64 % 7),
                _ => (base.saturating_sub(jitter as u64 % (base / 4 + 1))).max(1),
            };
            (steps, inner)
        })
        .boxed()
}

// ------------------------------------------------------------------------------------------------
// policies

/// forced decisions relative to the model's current score, cycling through `decisions`
pub struct ForcedPolicy {
    pub decisions: Vec<Decision>,
    pub base: f64,
    pub proposals: u64,
}

impl Policy for ForcedPolicy {
    fn decide(&mut self, _params: &[f64], info: &CallInfo) -> Option<f64> {
        if info.call == 0 {
            return Some(self.base);
        }
        let k = info.call as u64;
        if k > self.proposals || info.finished {
            // the final validity call: the score of the current state
            return Some(info.current.as_ref().map(|c| c.score).unwrap_or(self.base));
        }
        let decision = self.decisions[((k - 1) % self.decisions.len() as u64) as usize];
        let cur = match &info.current {
            Some(c) => c.score,
            None => {
                // ambiguous trace: never guessed. An accepting decision is made an improvement in every
                // candidate world (which also collapses the ambiguity), anything else a forced rejection.
                return match decision {
                    Decision::Better(d) if info.max_score.is_finite() => Some(info.max_score + d.max(1.0)),
                    Decision::Equal if info.max_score.is_finite() => Some(info.max_score + 1.0),
                    _ => None,
                };
            }
        };
        match decision {
            Decision::Better(d) => Some(cur + d),
            Decision::Equal => Some(cur),
            Decision::Worse(d) => Some(cur - d),
            Decision::Invalid => None,
        }
    }
}

/// every proposal is worse than the current state by d(loop)
pub struct WorsePolicy {
    pub d_per_loop: Vec<f64>,
    pub inner: u64,
    pub proposals: u64,
    pub base: f64,
    /// when set, an accepted worse move is followed by a proposal of the base score (an improvement, always kept), so that
    /// every trial starts from exactly `base` and differences far below one ulp of a drifting score stay representable
    pub recentre: bool,
}

impl Policy for WorsePolicy {
    fn decide(&mut self, _params: &[f64], info: &CallInfo) -> Option<f64> {
        if info.call == 0 {
            return Some(self.base);
        }
        let k = info.call as u64;
        if k > self.proposals || info.finished {
            return Some(info.current.as_ref().map(|c| c.score).unwrap_or(self.base));
        }
        let cur = match &info.current {
            Some(c) => c.score,
            None => return None,
        };
        let l = (((k - 1) / self.inner.max(1)) as usize).min(self.d_per_loop.len() - 1);
        if self.recentre && cur != self.base {
            return Some(self.base);
        }
        Some(cur - self.d_per_loop[l])
    }
}

/// a pure function of the parameters
#[derive(Clone, Debug, Serialize, Deserialize, PartialEq)]
pub struct Landscape {
    pub centre: Vec<f64>,
    pub weights: Vec<f64>,
    /// amplitude and frequency of the ripple
    pub ripple: (f64, f64),
    /// plateau quantum (0 = none)
    pub quantum: f64,
    /// invalid band: coordinate index, lo, hi (score undefined inside)
    pub invalid: Option<(usize, f64, f64)>,
}

impl Landscape {
    pub fn eval(&self, p: &[f64]) -> Option<f64> {
        if let Some((i, lo, hi)) = self.invalid {
            let i = i % p.len();
            if p[i] > lo && p[i] < hi {
                return None;
            }
        }
        let mut s = 0.;
        for i in 0..p.len() {
            let d = p[i] - self.centre[i % self.centre.len()];
            s -= self.weights[i % self.weights.len()] * d * d;
            s += self.ripple.0 * (self.ripple.1 * p[i]).sin();
        }
        if self.quantum > 0. {
            s = (s / self.quantum).floor() * self.quantum;
        }
        Some(s)
    }
}

pub struct LandscapePolicy(pub Landscape);

impl Policy for LandscapePolicy {
    fn decide(&mut self, params: &[f64], _info: &CallInfo) -> Option<f64> {
        self.0.eval(params)
    }
}

pub fn landscape_strat(n: usize, lo: f64, hi: f64) -> BoxedStrategy<Landscape> {
    let span = hi - lo;
    (
        proptest::collection::vec(lo..=hi, n),
        proptest::collection::vec(0.0..4.0f64, n),
        (prop_oneof![Just(0.), 0.0..0.5f64], 1.0..40.0f64),
        prop_oneof![3 => Just(0.), 1 => (0.001..0.2f64)],
        prop_oneof![2 => Just(None), 1 => (0usize..8, 0.0..1.0f64, 0.0..0.2f64).prop_map(move |(i, a, w)| Some((i, lo + a * span, lo + a * span + w * span)))],
    )
        .prop_map(|(centre, weights, ripple, quantum, invalid)| Landscape { centre, weights, ripple, quantum, invalid })
        .boxed()
}

// ------------------------------------------------------------------------------------------------

pub struct RunOut {
    pub panicked: Option<String>,
    pub returned_params: Option<Vec<f64>>,
    pub returned_score: Option<Option<f64>>,
    /// number of score() calls made by optimise_state itself (before the harness touched the result)
    pub calls_during_run: usize,
    pub steps: Vec<StepRec>,
    pub final_cands: Vec<Cand>,
    pub inconsistency: Option<(usize, String)>,
    pub initial: Option<Cand>,
    pub log_scores: Vec<Option<f64>>,
    pub shadow_final: Vec<Cand>,
    pub shadow_inconsistency: Option<(usize, String)>,
    pub shadow_steps: Vec<StepRec>,
}

/// run the real optimiser on a Script governed by `policy`
pub fn run_script(cfg: &OptCfg, init: &[f64], bounds: &[(f64, f64)], kt_zero: bool, use_expectations: bool, policy: Box<dyn Policy>) -> RunOut {
    run_script_shadow(cfg, init, bounds, kt_zero, use_expectations, crate::probe::Mode::Agnostic, policy)
}

/// as run_script, with the mode of the second (shadow) model chosen by the caller
pub fn run_script_shadow(cfg: &OptCfg, init: &[f64], bounds: &[(f64, f64)], kt_zero: bool, use_expectations: bool, shadow_mode: crate::probe::Mode, policy: Box<dyn Policy>) -> RunOut {
    run_script_twins(cfg, init, bounds, &[], kt_zero, use_expectations, shadow_mode, policy)
}

/// as run_script_shadow; the values listed in `twins` get a second basis handle each
pub fn run_script_twins(cfg: &OptCfg, init: &[f64], bounds: &[(f64, f64)], twins: &[usize], kt_zero: bool, use_expectations: bool, shadow_mode: crate::probe::Mode, policy: Box<dyn Policy>) -> RunOut {
    let n_values = init.len();
    let mut model = Model::new(kt_zero, use_expectations);
    model.keep_steps = true;
    let brain: SharedBrain = new_brain(model, policy);
    {
        let mut sh = Model::with_mode(kt_zero, shadow_mode);
        sh.keep_steps = true;
        brain.lock().unwrap().shadow = Some(sh);
    }
    let script = Script::new(init, bounds, brain.clone()).with_twins(twins);
    let cfg2 = cfg.clone();
    let result = catch_unwind(AssertUnwindSafe(move || {
        let opt = cfg2.build();
        let out = opt.optimise_state(script);
        let mut params = crate::probe::params_of_state(&out);
        params.truncate(n_values);
        (params, out)
    }));
    let (panicked, returned_params, keep) = match result {
        Ok((p, out)) => (None, Some(p), Some(out)),
        Err(e) => {
            let msg = if let Some(s) = e.downcast_ref::<&str>() {
                s.to_string()
            } else if let Some(s) = e.downcast_ref::<String>() {
                s.clone()
            } else {
                "panic".to_string()
            };
            (Some(msg), None, None)
        }
    };
    let calls_during_run = brain.lock().unwrap_or_else(|e| e.into_inner()).model.calls;
    // candidate final states as implied by the trace (before any further call)
    let (final_cands, steps, inconsistency, initial, log_scores, shadow_final, shadow_inconsistency, shadow_steps) = {
        let mut b = brain.lock().unwrap_or_else(|e| e.into_inner());
        let fc = b.model.final_candidates();
        b.model.finished = true;
        let (sf, si, ss) = match b.shadow.as_mut() {
            Some(sh) => {
                let f = sh.final_candidates();
                sh.finished = true;
                (f, sh.inconsistency.clone(), std::mem::take(&mut sh.steps))
            }
            None => (vec![], None, vec![]),
        };
        (fc, b.model.steps.clone(), b.model.inconsistency.clone(), b.model.initial.clone(), b.log_scores.clone(), sf, si, ss)
    };
    // score of the returned state, asked after the bookkeeping above
    let returned_score = keep.as_ref().map(|s| s.score());
    RunOut { panicked, returned_params, returned_score, calls_during_run, steps, final_cands, inconsistency, initial, log_scores, shadow_final, shadow_inconsistency, shadow_steps }
}

pub fn same_bits(a: &[f64], b: &[f64]) -> bool {
    a.len() == b.len() && a.iter().zip(b.iter()).all(|(x, y)| x.to_bits() == y.to_bits())
}


/// a compressed start state: the input quenched for `steps` steps at kT = 0 (no probe attached), handed back through
/// serde_json::Value (bit-exact)
pub fn warm_start<S>(state: S, steps: u64, seed: u64) -> Result<S, String>
where
    S: State + Serialize + serde::de::DeserializeOwned,
{
    if steps == 0 {
        return Ok(state);
    }
    let cfg = OptCfg { steps, inner: 1000, kt_start: 0., kt_finish: None, kt_ratio: Some(0.), max_step: 0.05, convergence: None, seed };
    let res = catch_unwind(AssertUnwindSafe(move || {
        let out = cfg.build().optimise_state(state);
        serde_json::to_value(&out).ok()
    }));
    match res {
        Ok(Some(v)) => serde_json::from_value(v).map_err(|e| e.to_string()),
        _ => Err("warm start failed".to_string()),
    }
}

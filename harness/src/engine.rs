//! Sharded proptest runner, per-thread recorders, replay files.
//!
//! Every random choice in a check is made by a proptest strategy driven by a `TestRunner` whose seed is a
//! pure function of (VERIF_SEED, property, part, shard).  A failing case is shrunk by proptest and the
//! minimal value is written verbatim into /verif/replays; `--replay` feeds it back to the same oracle
//! without proptest.

use std::cell::{Cell, RefCell};
use std::collections::hash_map::DefaultHasher;
use std::collections::{BTreeMap, HashSet};
use std::hash::{Hash, Hasher};
use std::path::PathBuf;
use std::sync::atomic::{AtomicBool, Ordering};
use std::sync::{Arc, Mutex};

use proptest::strategy::{BoxedStrategy, Strategy};
use proptest::test_runner::{Config, RngAlgorithm, RngSeed, TestCaseError, TestError, TestRunner};
use serde::de::DeserializeOwned;
use serde::Serialize;
use serde_json::{json, Value};

use crate::evidence::Evidence;
use crate::known::Known;

#[derive(Clone, Copy, Debug, PartialEq)]
pub enum Tier {
    Quick,
    Thorough,
}

pub struct Ctx {
    pub id: &'static str,
    pub tier: Tier,
    pub seed: u64,
    pub threads: usize,
    pub known: Known,
    pub verif_dir: PathBuf,
    /// strict = replay mode: known findings are reported but nothing else changes
    pub cli_bin: Option<PathBuf>,
    pub scale: f64,
}

impl Ctx {
    pub fn pick(&self, quick: u64, thorough: u64) -> u64 {
        let n = match self.tier {
            Tier::Quick => quick,
            Tier::Thorough => thorough,
        };
        ((n as f64) * self.scale).ceil().max(1.0) as u64
    }
}

pub fn mix(seed: u64, id: &str, part: &str, shard: u64) -> u64 {
    // splitmix-style mixing of the four inputs; a pure function.
    let mut h = DefaultHasher::new();
    // DefaultHasher::new() uses fixed keys (SipHash 1-3 with zero keys): deterministic across runs.
    seed.hash(&mut h);
    id.hash(&mut h);
    part.hash(&mut h);
    shard.hash(&mut h);
    let mut z = h.finish().wrapping_add(0x9E37_79B9_7F4A_7C15);
    z = (z ^ (z >> 30)).wrapping_mul(0xBF58_476D_1CE4_E5B9);
    z = (z ^ (z >> 27)).wrapping_mul(0x94D0_49BB_1331_11EB);
    z ^ (z >> 31)
}

pub fn hash_json(v: &Value) -> u64 {
    let mut h = DefaultHasher::new();
    v.to_string().hash(&mut h);
    h.finish()
}

pub fn hash_f64s(vals: &[f64]) -> u64 {
    let mut h = DefaultHasher::new();
    for v in vals {
        v.to_bits().hash(&mut h);
    }
    h.finish()
}

/// What an oracle reports for one case, besides pass/fail.
#[derive(Default)]
pub struct Rec {
    active: Cell<bool>,
    pub evals: Cell<u64>,
    pub nontrivial_total: Cell<u64>,
    nontrivial: RefCell<HashSet<u64>>,
    classes: RefCell<BTreeMap<String, u64>>,
    samples: RefCell<BTreeMap<String, Vec<Value>>>,
    known: RefCell<BTreeMap<String, (u64, String)>>,
    counters: RefCell<BTreeMap<String, f64>>,
}

pub const NT_CAP: usize = 400_000;
pub const SAMPLES_PER_CLASS: usize = 2;

impl Rec {
    pub fn new() -> Rec {
        let r = Rec::default();
        r.active.set(true);
        r
    }
    pub fn freeze(&self) {
        self.active.set(false);
    }
    pub fn is_active(&self) -> bool {
        self.active.get()
    }
    /// one oracle evaluation (a generated case may contain many)
    pub fn eval(&self, n: u64) {
        if self.active.get() {
            self.evals.set(self.evals.get() + n);
        }
    }
    /// a case that is non-trivial by the property's stated rule; `key` identifies the case for
    /// distinctness (hash of its defining values)
    pub fn nontrivial(&self, key: u64) {
        if !self.active.get() {
            return;
        }
        self.nontrivial_total.set(self.nontrivial_total.get() + 1);
        let mut s = self.nontrivial.borrow_mut();
        if s.len() < NT_CAP {
            s.insert(key);
        }
    }
    pub fn class(&self, name: &str) {
        if !self.active.get() {
            return;
        }
        *self.classes.borrow_mut().entry(name.to_string()).or_insert(0) += 1;
    }
    pub fn class_n(&self, name: &str, n: u64) {
        if !self.active.get() || n == 0 {
            return;
        }
        *self.classes.borrow_mut().entry(name.to_string()).or_insert(0) += n;
    }
    pub fn counter_max(&self, name: &str, v: f64) {
        if !self.active.get() {
            return;
        }
        let mut c = self.counters.borrow_mut();
        let e = c.entry(name.to_string()).or_insert(f64::NEG_INFINITY);
        if v > *e {
            *e = v;
        }
    }
    /// keep the case as a sample of class `name` (first few only)
    pub fn sample(&self, name: &str, make: impl FnOnce() -> Value) {
        if !self.active.get() {
            return;
        }
        let mut s = self.samples.borrow_mut();
        let e = s.entry(name.to_string()).or_insert_with(Vec::new);
        if e.len() < SAMPLES_PER_CLASS {
            e.push(make());
        }
    }
    pub fn wants_sample(&self, name: &str) -> bool {
        self.active.get()
            && self
                .samples
                .borrow()
                .get(name)
                .map(|v| v.len() < SAMPLES_PER_CLASS)
                .unwrap_or(true)
    }
    /// a violation that matches a listed known finding: counted, not failed
    pub fn known(&self, sig: &str, what: impl FnOnce() -> String) {
        if !self.active.get() {
            return;
        }
        let mut k = self.known.borrow_mut();
        let e = k.entry(sig.to_string()).or_insert_with(|| (0, what()));
        e.0 += 1;
    }
}

/// merged, thread-safe
#[derive(Default)]
pub struct Merged {
    pub evals: u64,
    pub cases: u64,
    pub nontrivial_total: u64,
    pub nontrivial: HashSet<u64>,
    pub classes: BTreeMap<String, u64>,
    pub samples: BTreeMap<String, Vec<Value>>,
    pub known: BTreeMap<String, (u64, String)>,
    pub counters: BTreeMap<String, f64>,
}

impl Merged {
    pub fn absorb(&mut self, r: &Rec, cases: u64) {
        self.evals += r.evals.get();
        self.cases += cases;
        self.nontrivial_total += r.nontrivial_total.get();
        for k in r.nontrivial.borrow().iter() {
            if self.nontrivial.len() < NT_CAP {
                self.nontrivial.insert(*k);
            }
        }
        for (k, v) in r.classes.borrow().iter() {
            *self.classes.entry(k.clone()).or_insert(0) += v;
        }
        for (k, v) in r.samples.borrow().iter() {
            let e = self.samples.entry(k.clone()).or_insert_with(Vec::new);
            for s in v {
                if e.len() < SAMPLES_PER_CLASS {
                    e.push(s.clone());
                }
            }
        }
        for (k, v) in r.known.borrow().iter() {
            let e = self.known.entry(k.clone()).or_insert_with(|| (0, v.1.clone()));
            e.0 += v.0;
        }
        for (k, v) in r.counters.borrow().iter() {
            let e = self.counters.entry(k.clone()).or_insert(f64::NEG_INFINITY);
            if *v > *e {
                *e = *v;
            }
        }
    }
}

pub struct Failure {
    pub part: String,
    pub case: Value,
    pub message: String,
}

pub type Oracle<C> = Arc<dyn Fn(&C, &Rec, &Ctx) -> Result<(), String> + Send + Sync>;
/// optional post-pass after proptest's shrinking: given the shrunk case and a "still fails?" predicate,
/// return a smaller failing case (e.g. keep only the offending element of a batch)
pub type Minimiser<C> = Arc<dyn Fn(&C, &dyn Fn(&C) -> bool) -> C + Send + Sync>;

pub struct PartDef {
    pub name: &'static str,
    pub run: Box<dyn Fn(&Ctx, &mut Evidence) + Send + Sync>,
    pub replay: Box<dyn Fn(&Value, &Rec, &Ctx) -> Result<(), String> + Send + Sync>,
}

/// Define one generated part of a property check.
pub fn part<C, SF>(
    name: &'static str,
    cases_quick: u64,
    cases_thorough: u64,
    strat: SF,
    oracle: impl Fn(&C, &Rec, &Ctx) -> Result<(), String> + Send + Sync + 'static,
) -> PartDef
where
    C: Serialize + DeserializeOwned + std::fmt::Debug + Clone + Send + 'static,
    SF: Fn(&Ctx) -> BoxedStrategy<C> + Send + Sync + 'static,
{
    part_min(name, cases_quick, cases_thorough, strat, oracle, |c: &C, _: &dyn Fn(&C) -> bool| c.clone())
}

#[derive(Clone, Copy)]
pub struct PartOpts {
    /// upper limit on concurrently running shards (for parts whose cases are themselves heavily threaded)
    pub max_shards: usize,
    pub max_shrink_iters: u32,
}

impl Default for PartOpts {
    fn default() -> PartOpts {
        PartOpts { max_shards: usize::MAX, max_shrink_iters: 2048 }
    }
}

pub fn part_min<C, SF>(
    name: &'static str,
    cases_quick: u64,
    cases_thorough: u64,
    strat: SF,
    oracle: impl Fn(&C, &Rec, &Ctx) -> Result<(), String> + Send + Sync + 'static,
    minimise: impl Fn(&C, &dyn Fn(&C) -> bool) -> C + Send + Sync + 'static,
) -> PartDef
where
    C: Serialize + DeserializeOwned + std::fmt::Debug + Clone + Send + 'static,
    SF: Fn(&Ctx) -> BoxedStrategy<C> + Send + Sync + 'static,
{
    part_opts(name, cases_quick, cases_thorough, strat, oracle, minimise, PartOpts::default())
}

pub fn part_opts<C, SF>(
    name: &'static str,
    cases_quick: u64,
    cases_thorough: u64,
    strat: SF,
    oracle: impl Fn(&C, &Rec, &Ctx) -> Result<(), String> + Send + Sync + 'static,
    minimise: impl Fn(&C, &dyn Fn(&C) -> bool) -> C + Send + Sync + 'static,
    opts: PartOpts,
) -> PartDef
where
    C: Serialize + DeserializeOwned + std::fmt::Debug + Clone + Send + 'static,
    SF: Fn(&Ctx) -> BoxedStrategy<C> + Send + Sync + 'static,
{
    // parts with few (i.e. expensive: whole optimiser runs, CLI processes) cases shrink for a bounded number of steps, so
    // that a failing tree is reported within minutes rather than at the watchdog
    let opts = if opts.max_shrink_iters == PartOpts::default().max_shrink_iters && cases_quick <= 5_000 { PartOpts { max_shrink_iters: 300, ..opts } } else { opts };
    let minimise: Minimiser<C> = Arc::new(minimise);
    let oracle: Oracle<C> = Arc::new(oracle);
    let o1 = oracle.clone();
    let o2 = oracle;
    PartDef {
        name,
        run: Box::new(move |ctx, ev| {
            let cases = ctx.pick(cases_quick, cases_thorough);
            run_sharded(ctx, ev, name, cases, &strat, &o1, &minimise, opts);
        }),
        replay: Box::new(move |v, rec, ctx| {
            let c: C = serde_json::from_value(v.clone()).map_err(|e| format!("replay file does not hold a case of part {}: {}", name, e))?;
            o2(&c, rec, ctx)
        }),
    }
}

/// A part that is not proptest-sharded (e.g. exhaustive tables, CLI grids driven by one runner).
pub fn custom_part(
    name: &'static str,
    run: impl Fn(&Ctx, &mut Evidence) + Send + Sync + 'static,
    replay: impl Fn(&Value, &Rec, &Ctx) -> Result<(), String> + Send + Sync + 'static,
) -> PartDef {
    PartDef { name, run: Box::new(run), replay: Box::new(replay) }
}

fn run_sharded<C, SF>(ctx: &Ctx, ev: &mut Evidence, part: &'static str, cases: u64, strat: &SF, oracle: &Oracle<C>, minimise: &Minimiser<C>, opts: PartOpts)
where
    C: Serialize + DeserializeOwned + std::fmt::Debug + Clone + Send + 'static,
    SF: Fn(&Ctx) -> BoxedStrategy<C> + Send + Sync,
{
    let shards = ctx.threads.max(1).min(opts.max_shards.max(1)) as u64;
    let shards = shards.min(cases.max(1));
    let abort = AtomicBool::new(false);
    // lowest index among the shards that have failed so far: only its (fully shrunk) case is reported, so a shard
    // with a higher index stops shrinking as soon as it knows
    let lowest_failed = std::sync::atomic::AtomicU64::new(u64::MAX);
    let merged = Mutex::new(Merged::default());
    let failures: Mutex<Vec<(u64, C, String)>> = Mutex::new(Vec::new());
    std::thread::scope(|scope| {
        for shard in 0..shards {
            let abort = &abort;
            let lowest_failed = &lowest_failed;
            let merged = &merged;
            let failures = &failures;
            scope.spawn(move || {
                let n = cases / shards + if shard < cases % shards { 1 } else { 0 };
                if n == 0 {
                    return;
                }
                let rec = Rec::new();
                let done = Cell::new(0u64);
                let config = Config {
                    cases: n as u32,
                    failure_persistence: None,
                    max_shrink_iters: opts.max_shrink_iters,
                    max_global_rejects: 1 << 30,
                    max_local_rejects: 1 << 24,
                    rng_algorithm: RngAlgorithm::ChaCha,
                    rng_seed: RngSeed::Fixed(mix(ctx.seed, ctx.id, part, shard)),
                    ..Config::default()
                };
                let mut runner = TestRunner::new(config);
                let strategy = strat(ctx);
                let result = runner.run(&strategy, |case: C| {
                    if abort.load(Ordering::Relaxed) && rec.is_active() {
                        // another shard already failed: stop exploring (not counted)
                        return Ok(());
                    }
                    if rec.is_active() {
                        done.set(done.get() + 1);
                    } else if lowest_failed.load(Ordering::Relaxed) < shard {
                        // shrinking a failure that will not be the reported one: let the shrinker run out at once
                        return Ok(());
                    }
                    match oracle(&case, &rec, ctx) {
                        Ok(()) => Ok(()),
                        Err(msg) => {
                            rec.freeze();
                            abort.store(true, Ordering::Relaxed);
                            lowest_failed.fetch_min(shard, Ordering::Relaxed);
                            Err(TestCaseError::fail(msg))
                        }
                    }
                });
                match result {
                    Ok(()) => {}
                    Err(TestError::Fail(reason, value)) => {
                        failures.lock().unwrap().push((shard, value, reason.message().to_string()));
                    }
                    Err(TestError::Abort(reason)) => {
                        // generator starvation: a broken check, not a violation
                        eprintln!("HARNESS-ERROR part={} shard={} proptest aborted: {}", part, shard, reason.message());
                        crate::mark_broken();
                    }
                }
                merged.lock().unwrap().absorb(&rec, done.get());
            });
        }
    });
    let merged = merged.into_inner().unwrap();
    let mut failures = failures.into_inner().unwrap();
    failures.sort_by_key(|f| f.0);
    ev.absorb_part(part, &merged);
    if let Some((shard, case, msg)) = failures.into_iter().next() {
        // outside proptest a panicking oracle must not take the harness down
        let guarded = |c: &C, rec: &Rec| -> Result<(), String> {
            match std::panic::catch_unwind(std::panic::AssertUnwindSafe(|| oracle(c, rec, ctx))) {
                Ok(r) => r,
                Err(_) => Err("the check's oracle panicked on this case (a panic inside the code under test)".to_string()),
            }
        };
        let case = {
            let still_fails = |c: &C| {
                let rec = Rec::new();
                rec.freeze();
                guarded(c, &rec).is_err()
            };
            let smaller = minimise(&case, &still_fails);
            if still_fails(&smaller) {
                smaller
            } else {
                case
            }
        };
        // re-evaluate the shrunk case once to get the message that belongs to it
        let rec = Rec::new();
        let msg2 = match guarded(&case, &rec) {
            Err(m) => m,
            Ok(()) => format!("(shrunk case no longer fails on re-evaluation; original message) {}", msg),
        };
        let f = Failure { part: part.to_string(), case: serde_json::to_value(&case).unwrap_or(json!(format!("{:?}", case))), message: msg2 };
        eprintln!("violation found in part {} (shard {})", part, shard);
        ev.report_violation(ctx, f);
    }
}

/// For custom parts: report a failure with a serialisable case.
pub fn fail_case(ctx: &Ctx, ev: &mut Evidence, part: &str, case: Value, message: String) {
    ev.report_violation(ctx, Failure { part: part.to_string(), case, message });
}

/// monotone index map for shrinking-friendly choices: u16 -> 0..len
pub fn idx(i: u16, len: usize) -> usize {
    ((i as usize) * len) >> 16
}

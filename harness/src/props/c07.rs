//! C07 — moves are accepted according to the Metropolis rule.

use proptest::prelude::*;
use serde::{Deserialize, Serialize};

use crate::engine::{hash_json, part, Ctx, PartDef, Rec, Tier};
use crate::opt::{run_script, steps_inner, ForcedPolicy, OptCfg, RunOut, WorsePolicy};
use crate::probe::{Decision, Expect};

pub const TITLE: &str = "Moves are accepted according to the Metropolis rule";
pub const RULE: &str = "part deterministic: cyclic scripts of forced outcomes on synthetic states (2..8 parameters, 1..20 loops, kT = 0 or 1e-3..10, with and without a finishing temperature or cooling ratio): better by 1e-300..1e100 => accepted, equal => accepted, undefined => rejected, worse at kT=0 => rejected; the outcome of every step is read off the next proposal (which state it derives from); steps whose outcome cannot be read (two consecutive proposals on one coordinate, or a move clamped to no change) are excluded. part frequencies: constant temperature by construction (a single inner loop, so that no cooling schedule is involved), 8 parameters on [0,1] starting at 0.5 with max_step 1e-3 (never clamped), every proposal scripted worse by d; 12 fixed (d,kT) pairs with exp(-d/kT) in [0.02,0.98] including kT=1e-6 and kT=100, and generated pairs with d/kT log-uniform in [0.02,4] at kT log-uniform in [1e-6,100]; N counted trials per case (quick 2e5, thorough 2e6: a 6-sigma test then resolves an absolute bias of about 0.7% / 0.2%); accepted iff |p_hat - exp(-d/kT)| <= 6 sqrt(p(1-p)/N) + 1/N. part boundary: the optimiser's seeded generator (Pcg64Mcg; one index draw, one displacement draw, one acceptance draw per step) is replayed by the harness, so the acceptance draw u_k of every step is known in advance; proposal k is scripted worse by d with exp(-d/kT) = u_k(1+eps) on even steps (must be accepted) and u_k(1-eps) on odd steps (must be rejected), eps in 1e-8..1e-3, kT in 1e-6..100; an eighth of the cases first search consecutive seeds for a draw below 1e-6 or 1.5e-9, so that the rule is also decided where exp(-d/kT) is about 1e-9. The replay is trusted only while it predicts which parameter every proposal moves (otherwise the case is skipped and counted). Non-trivial = a frequency trial with 0.02<p<0.98, a boundary case with >= 10 judged steps, or a deterministic script in which all four kinds of step were resolved; distinct by hash of the case. The deterministic part also runs at kT = 1e-300, 1e300 and +infinity (constant temperature).";

pub fn assumptions() -> Vec<&'static str> {
    vec![
        "the frequency test is a 6-sigma binomial test (false alarm probability below 1e-8 per pair and seed); with the optimiser's own seeded generator it is deterministic per VERIF_SEED",
        "equal-score acceptance at kT>0 has probability 1 under the rule and is only checkable as 'accepted'",
        "ambiguous steps are answered 'undefined' (a forced rejection) and excluded; their occurrence (same coordinate twice in a row) is independent of the outcome under test",
    ]
}

#[derive(Clone, Debug, Serialize, Deserialize)]
pub struct DetCase {
    pub cfg: OptCfg,
    pub n: usize,
    pub decisions: Vec<Decision>,
}

fn det_decision() -> BoxedStrategy<Decision> {
    prop_oneof![
        3 => (-300.0..100.0f64).prop_map(|e| Decision::Better(10f64.powf(e))),
        2 => (-6.0..1.0f64).prop_map(|e| Decision::Better(10f64.powf(e))),
        2 => Just(Decision::Equal),
        3 => Just(Decision::Invalid),
        3 => (-12.0..3.0f64).prop_map(|e| Decision::Worse(10f64.powf(e))),
    ]
    .boxed()
}

fn det_strat(_: &Ctx) -> BoxedStrategy<DetCase> {
    (
        steps_inner(3000, 60),
        // 0, ordinary, and the extremes of "all temperatures" (the latter only at constant temperature, see below)
        prop_oneof![8 => Just(0.), 12 => (-3.0..1.0f64).prop_map(|e| 10f64.powf(e)), 1 => Just(1e300), 1 => Just(f64::INFINITY), 1 => Just(1e-300)],
        prop_oneof![Just(None), Just(Some(0.)), Just(Some(0.3))],
        prop_oneof![(-3.0..-1.0f64).prop_map(|e| 10f64.powf(e)), Just(0.01)],
        any::<u64>(),
        2usize..=8,
        proptest::collection::vec(det_decision(), 1..48),
        prop_oneof![2 => Just(None), 1 => Just(Some(0.001)), 1 => Just(Some(0.1)), 1 => Just(Some(0.))],
    )
        .prop_map(|((steps, inner), kt_start, kt_ratio, max_step, seed, n, decisions, kt_finish)| {
            // an infinite or huge temperature is kept constant: cooling it by a factor derived from kt_finish is not defined
            let (kt_ratio, kt_finish) = if kt_start > 1e100 { (Some(0.), None) } else { (kt_ratio, kt_finish) };
            DetCase { cfg: OptCfg { steps, inner, kt_start, kt_finish, kt_ratio, max_step, convergence: if seed % 5 == 0 { Some(1e-9) } else { None }, seed }, n, decisions }
        })
        .boxed()
}

/// judge the deterministic clauses on a finished forced run; returns which kinds were resolved
fn judge_deterministic(out: &RunOut, cfg: &OptCfg) -> Result<[u64; 4], String> {
    let mut seen = [0u64; 4];
    let p = cfg.proposals() as usize;
    for st in out.steps.iter().take(p) {
        let (base, expect, outcome) = match (st.base_score, st.expect, st.outcome) {
            (Some(b), Some(e), Some(o)) => (b, e, o),
            _ => continue,
        };
        match (st.returned, expect) {
            (None, _) => {
                seen[2] += 1;
                if outcome {
                    return Err(format!("proposal #{} has no defined score and was accepted", st.k));
                }
            }
            (Some(r), Expect::Accept) => {
                if r > base {
                    seen[0] += 1;
                } else {
                    seen[1] += 1;
                }
                if !outcome {
                    return Err(format!("proposal #{} scores {} against the current {} ({}) and was rejected", st.k, r, base, if r > base { "better" } else { "equal" }));
                }
            }
            (Some(r), Expect::Reject) => {
                // "never at kT = 0": judged while the temperature is the configured kt_start = 0, i.e. in the first
                // inner loop; whether a zero temperature *stays* zero in later loops is C05's and C18's subject
                if (st.k as u64) <= cfg.inner_eff().max(1) {
                    seen[3] += 1;
                    if outcome {
                        return Err(format!("proposal #{} scores {} against the current {} at kT = 0 and was accepted", st.k, r, base));
                    }
                }
            }
            (Some(_), Expect::Unknown) => {}
        }
    }
    if let Some((k, msg)) = &out.inconsistency {
        // the model follows the rule; a proposal it cannot explain means either that the previous forced decision
        // went the other way (this property's subject) or that the state was corrupted (C06's subject). Only the
        // former is reported: the unexplained proposal must derive from the *other* outcome of the previous step.
        if *k >= 2 && *k - 1 < out.steps.len() {
            let prev = &out.steps[k - 2];
            let cur = &out.steps[k - 1];
            let near = |a: &[f64], b: &[f64]| a.iter().zip(b.iter()).filter(|(x, y)| x.to_bits() != y.to_bits()).count() <= 1;
            let first_loop = (prev.k as u64) <= cfg.inner_eff().max(1);
            let other_world = match (prev.expect, prev.returned) {
                (Some(Expect::Accept), _) => prev.base.as_ref().map(|b| near(b, &cur.proposal)).unwrap_or(false),
                // a worse proposal kept at a nominal kT = 0 after the first loop is the schedule's (C05/C18) subject
                (Some(Expect::Reject), Some(_)) if !first_loop => false,
                (Some(Expect::Reject), _) => near(&prev.proposal, &cur.proposal),
                _ => false,
            };
            if other_world {
                let what = match (prev.returned, prev.expect) {
                    (None, _) => "a proposal without a defined score was accepted",
                    (Some(_), Some(Expect::Accept)) => "a better or equal proposal was rejected",
                    (Some(_), Some(Expect::Reject)) => "a worse proposal was accepted at kT = 0",
                    _ => "the previous forced decision went the other way",
                };
                return Err(format!("{} (proposal #{}: score {:?}, current {:?}); next proposal: {}", what, prev.k, prev.returned, prev.base_score, msg));
            }
        }
        // corrupted trace: not judged here
        return Ok(seen);
    }
    Ok(seen)
}

fn det_oracle(c: &DetCase, rec: &Rec, _: &Ctx) -> Result<(), String> {
    let init = vec![0.5; c.n];
    let bounds = vec![(0., 1.); c.n];
    let kt_zero = c.cfg.kt_start == 0.;
    let policy = ForcedPolicy { decisions: c.decisions.clone(), base: 1.0, proposals: c.cfg.proposals() };
    let out = run_script(&c.cfg, &init, &bounds, kt_zero, true, Box::new(policy));
    rec.eval(out.steps.len() as u64 + 1);
    if out.panicked.is_some() {
        rec.class("panicked-not-judged-here");
        return Ok(());
    }
    let seen = judge_deterministic(&out, &c.cfg)?;
    rec.class_n("resolved/better-accepted", seen[0]);
    rec.class_n("resolved/equal-accepted", seen[1]);
    rec.class_n("resolved/undefined-rejected", seen[2]);
    rec.class_n("resolved/worse-rejected-at-kT0", seen[3]);
    let all = seen[0] > 0 && seen[1] > 0 && seen[2] > 0 && (seen[3] > 0 || !kt_zero);
    let class = format!("deterministic/{}{}", if kt_zero { "kT=0" } else { "kT>0" }, if all { "/all-kinds" } else { "" });
    rec.class(&class);
    if all {
        rec.nontrivial(hash_json(&serde_json::to_value(c).unwrap()));
    }
    if rec.wants_sample(&class) {
        rec.sample(&class, || serde_json::to_value(c).unwrap());
    }
    Ok(())
}

#[derive(Clone, Debug, Serialize, Deserialize)]
pub struct FreqCase {
    /// index into PAIRS, or PAIRS.len() for the generated (x, kt) below
    pub pair: usize,
    /// d / kT for a generated pair
    #[serde(default)]
    pub x: f64,
    #[serde(default)]
    pub kt: f64,
    pub loops: u64,
    pub seed: u64,
}

/// (d, kT) with exp(-d/kT) spread over [0.02, 0.98]
pub const PAIRS: [(f64, f64); 12] = [
    (0.05, 0.1),       // 0.6065
    (0.1, 0.1),        // 0.3679
    (0.3, 0.1),        // 0.0498
    (0.002, 0.1),      // 0.9802
    (1.0e-6, 1.0e-6),  // 0.3679
    (3.5e-6, 1.0e-6),  // 0.0302
    (5.0e-8, 1.0e-6),  // 0.9512
    (100.0, 100.0),    // 0.3679
    (10.0, 100.0),     // 0.9048
    (250.0, 100.0),    // 0.0821
    (0.6931471805599453, 1.0), // 0.5
    (2.0, 1.0),        // 0.1353
];

fn freq_strat(_: &Ctx) -> BoxedStrategy<FreqCase> {
    // half of the cases use the fixed grid, half a generated ratio d/kT log-uniform in [0.02, 4] at a generated kT
    (0usize..24, (-1.7..0.6f64).prop_map(|e| 10f64.powf(e)), (-6.0..2.0f64).prop_map(|e| 10f64.powf(e)), Just(1u64), any::<u64>())
        .prop_map(|(pair, x, kt, loops, seed)| FreqCase { pair: pair.min(12), x, kt, loops, seed })
        .boxed()
}

pub struct Counted {
    pub trials: u64,
    pub accepted: u64,
    pub ambiguous: u64,
}

pub fn count_worse_trials(out: &RunOut, first: usize, last: usize) -> Counted {
    let mut c = Counted { trials: 0, accepted: 0, ambiguous: 0 };
    for st in out.steps.iter() {
        if st.k < first || st.k > last {
            continue;
        }
        match (st.returned, st.base_score, st.outcome) {
            (Some(r), Some(b), Some(o)) if r < b => {
                c.trials += 1;
                if o {
                    c.accepted += 1;
                }
            }
            _ => c.ambiguous += 1,
        }
    }
    c
}

fn freq_oracle(c: &FreqCase, rec: &Rec, ctx: &Ctx) -> Result<(), String> {
    let (d, kt) = if c.pair < PAIRS.len() { PAIRS[c.pair] } else { (c.x * c.kt, c.kt) };
    let want_trials: u64 = if ctx.tier == Tier::Quick { 200_000 } else { 2_000_000 };
    let inner = (want_trials * 8 / 7 + 600) / c.loops;
    let steps = inner * c.loops;
    let cfg = OptCfg { steps, inner, kt_start: kt, kt_finish: None, kt_ratio: Some(0.), max_step: 1e-3, convergence: None, seed: c.seed };
    let policy = WorsePolicy { d_per_loop: vec![d], inner, proposals: cfg.proposals(), base: 0., recentre: false };
    let out = run_script(&cfg, &vec![0.5; 8], &vec![(0., 1.); 8], false, true, Box::new(policy));
    rec.eval(out.steps.len() as u64 + 1);
    if let Some(p) = &out.panicked {
        return Err(format!("optimiser panicked: {}", p));
    }
    if let Some((k, msg)) = &out.inconsistency {
        return Err(format!("the trace is not explained by any accept/reject history at call {}: {}", k, msg));
    }
    let cnt = count_worse_trials(&out, 1, cfg.proposals() as usize);
    let p = (-d / kt).exp();
    let n = cnt.trials as f64;
    if cnt.trials < want_trials / 2 {
        return Err(format!("only {} of {} steps could be counted; the check is starved", cnt.trials, steps));
    }
    let phat = cnt.accepted as f64 / n;
    let tol = 6. * (p * (1. - p) / n).sqrt() + 1. / n;
    if (phat - p).abs() > tol {
        return Err(format!("moves worse by d = {} at kT = {} were accepted with frequency {:.5} ({} of {}), the Metropolis probability is exp(-d/kT) = {:.5} (6-sigma tolerance {:.5}; {} loops)", d, kt, phat, cnt.accepted, cnt.trials, p, tol, c.loops));
    }
    let class = if c.pair < PAIRS.len() { format!("frequency/pair{}/loops{}", c.pair, c.loops) } else { format!("frequency/generated/d-over-kT-{}", if d / kt < 0.1 { "<0.1" } else if d / kt < 0.5 { "0.1..0.5" } else if d / kt < 1.5 { "0.5..1.5" } else { ">1.5" }) };
    rec.class(&class);
    rec.nontrivial(hash_json(&serde_json::to_value(c).unwrap()));
    if rec.wants_sample(&class) {
        rec.sample(&class, || serde_json::json!({"case": c, "d": d, "kT": kt, "p": p, "p_hat": phat, "trials": cnt.trials, "excluded": cnt.ambiguous}));
    }
    Ok(())
}

// ------------------------------------------------------------------------------------------------
// boundary part: the optimiser's seeded generator is replayed, so the acceptance draw u_k of every step is known;
// proposal k is scripted worse by d with exp(-d/kT) = u_k (1 +- eps): it must be accepted for "+" and rejected for "-".
// This decides the rule at every probability scale (down to the smallest draws found by searching seeds).

#[derive(Clone, Debug, Serialize, Deserialize)]
pub struct BoundaryCase {
    pub n: usize,
    pub kt: f64,
    pub seed: u64,
    pub steps: u64,
    pub eps_exp: f64,
    /// search the seeds seed, seed+1, ... for a draw below this value within the first `steps` steps (0 = no search)
    pub rare_below: f64,
}

fn boundary_strat(_: &Ctx) -> BoxedStrategy<BoundaryCase> {
    (2usize..=8, (-6.0..2.0f64).prop_map(|e| 10f64.powf(e)), any::<u64>(), 50u64..600, -8.0..-3.0f64, prop_oneof![6 => Just(0.), 1 => Just(1.0e-6)])
        .prop_map(|(n, kt, seed, steps, eps_exp, rare_below)| BoundaryCase { n, kt, seed: seed >> 1, steps, eps_exp, rare_below })
        .boxed()
}

/// a few cases that search seeds for an acceptance draw below 1.5e-9 (exp(-20) = 2.06e-9)
fn rare_strat(_: &Ctx) -> BoxedStrategy<BoundaryCase> {
    (2usize..=8, (-3.0..1.0f64).prop_map(|e| 10f64.powf(e)), any::<u64>(), -8.0..-3.0f64)
        .prop_map(|(n, kt, seed, eps_exp)| BoundaryCase { n, kt, seed: seed >> 1, steps: 3000, eps_exp, rare_below: 1.5e-9 })
        .boxed()
}

/// the draws the optimiser makes with this seed: per step (parameter index, acceptance draw)
fn replay_draws(seed: u64, n: usize, steps: u64) -> Vec<(usize, f64)> {
    use rand07::distributions::{Distribution, Uniform};
    use rand07::{Rng, SeedableRng};
    let mut rng = rand_pcg::Pcg64Mcg::seed_from_u64(seed);
    let dist = Uniform::new(0, n);
    let mut v = Vec::with_capacity(steps as usize);
    for _ in 0..steps {
        let i: usize = dist.sample(&mut rng);
        let _g: f64 = rng.gen_range(-0.5, 0.5);
        let u: f64 = rng.gen();
        v.push((i, u));
    }
    v
}

struct BoundaryPolicy {
    draws: Vec<(usize, f64)>,
    kt: f64,
    eps: f64,
    cur: f64,
    /// per step: (d, expected accept, margin ok)
    plan: Vec<(f64, bool, bool)>,
}

impl crate::probe::Policy for BoundaryPolicy {
    fn decide(&mut self, _params: &[f64], info: &crate::probe::CallInfo) -> Option<f64> {
        let k = info.call;
        if k == 0 {
            return Some(self.cur);
        }
        if k > self.draws.len() || info.finished {
            return Some(self.cur);
        }
        let u = self.draws[k - 1].1;
        let plus = k % 2 == 0;
        let p = (u * if plus { 1. + self.eps } else { 1. - self.eps }).min(1.0).max(1e-300);
        let d = -self.kt * p.ln();
        let new = self.cur - d;
        // what the rule says for exactly these numbers
        let diff = new - self.cur;
        let prob = (diff / self.kt).exp().min(1.);
        let accept = new > self.cur || u < prob;
        let margin_ok = u > 0. && ((prob / u) - 1.).abs() >= 0.25 * self.eps && d > 0.;
        self.plan.push((d, accept, margin_ok));
        if accept {
            self.cur = new;
        }
        Some(new)
    }
}

fn boundary_oracle(c: &BoundaryCase, rec: &Rec, _: &Ctx) -> Result<(), String> {
    let mut seed = c.seed;
    let mut rare_hit: Option<usize> = None;
    if c.rare_below > 0. {
        // deterministic search over consecutive seeds
        let budget: u64 = if c.rare_below < 1e-7 { 400_000 } else { 20_000 };
        let scan_steps = if c.rare_below < 1e-7 { c.steps } else { c.steps.min(120) };
        for s in 0..budget {
            let draws = replay_draws(c.seed.wrapping_add(s), c.n, scan_steps);
            if let Some(pos) = draws.iter().position(|(_, u)| *u < c.rare_below && *u > 0.) {
                seed = c.seed.wrapping_add(s);
                rare_hit = Some(pos + 1);
                break;
            }
        }
        if rare_hit.is_none() {
            rec.class("boundary/rare-draw-not-found");
            return Ok(());
        }
    }
    let steps = match rare_hit {
        Some(k) => (k as u64 + 3).min(c.steps),
        None => c.steps,
    };
    let draws = replay_draws(seed, c.n, steps);
    let cfg = OptCfg { steps, inner: steps, kt_start: c.kt, kt_finish: None, kt_ratio: Some(0.), max_step: 1e-3, convergence: None, seed };
    let policy = BoundaryPolicy { draws: draws.clone(), kt: c.kt, eps: 10f64.powf(c.eps_exp), cur: 0., plan: vec![] };
    // the plan is filled by the policy; keep a handle through a shared cell
    let plan_cell: std::sync::Arc<std::sync::Mutex<Vec<(f64, bool, bool)>>> = std::sync::Arc::new(std::sync::Mutex::new(vec![]));
    struct Wrapper(BoundaryPolicy, std::sync::Arc<std::sync::Mutex<Vec<(f64, bool, bool)>>>);
    impl crate::probe::Policy for Wrapper {
        fn decide(&mut self, p: &[f64], info: &crate::probe::CallInfo) -> Option<f64> {
            let r = self.0.decide(p, info);
            *self.1.lock().unwrap() = self.0.plan.clone();
            r
        }
    }
    let out = run_script(&cfg, &vec![0.5; c.n], &vec![(0., 1.); c.n], false, true, Box::new(Wrapper(policy, plan_cell.clone())));
    rec.eval(out.steps.len() as u64 + 1);
    if let Some(p) = &out.panicked {
        return Err(format!("optimiser panicked: {}", p));
    }
    let plan = plan_cell.lock().unwrap().clone();
    // the replay is only trusted while it predicts which parameter each proposal moves
    let mut judged = 0u64;
    let mut smallest = f64::INFINITY;
    for (ix, st) in out.steps.iter().enumerate() {
        if ix >= plan.len() || ix >= draws.len() {
            break;
        }
        if let Some(changed) = st.changed {
            if changed != draws[ix].0 {
                rec.class("boundary/generator-not-replayable-skipped");
                return Ok(());
            }
        }
        let (d, accept, margin_ok) = plan[ix];
        if !margin_ok {
            continue;
        }
        if let Some(o) = st.outcome {
            judged += 1;
            if draws[ix].1 < smallest {
                smallest = draws[ix].1;
            }
            if o != accept {
                return Err(format!(
                    "step {} (seed {}): the proposal is worse by d = {:e} at kT = {:e}, exp(-d/kT) = {:e}, and the step's acceptance draw is {:e}: it must be {} but was {}",
                    ix + 1,
                    seed,
                    d,
                    c.kt,
                    (-d / c.kt).exp(),
                    draws[ix].1,
                    if accept { "accepted" } else { "rejected" },
                    if o { "accepted" } else { "rejected" }
                ));
            }
        } else if st.n_bases == 0 {
            break;
        }
    }
    let judged_rare = rare_hit.map(|k| out.steps.get(k - 1).map(|s| s.outcome.is_some()).unwrap_or(false)).unwrap_or(false);
    let class = if c.rare_below > 0. { format!("boundary/rare-draw<{:e}{}", c.rare_below, if judged_rare { "/judged" } else { "/unresolved" }) } else { "boundary/ordinary".to_string() };
    rec.class(&class);
    rec.class_n("boundary/judged-steps", judged);
    rec.counter_max("minus-log10-smallest-judged-draw", -smallest.log10());
    if judged >= 10 {
        rec.nontrivial(hash_json(&serde_json::to_value(c).unwrap()));
    }
    if rec.wants_sample(&class) {
        rec.sample(&class, || serde_json::json!({"case": c, "seed_used": seed, "judged_steps": judged, "smallest_draw_judged": smallest}));
    }
    Ok(())
}

pub fn parts() -> Vec<PartDef> {
    vec![part("deterministic", 60_000, 1_200_000, det_strat, det_oracle), part("frequencies", 240, 1_200, freq_strat, freq_oracle), part("boundary", 4_000, 80_000, boundary_strat, boundary_oracle), crate::engine::part_opts("boundary-rare", 16, 320, rare_strat, boundary_oracle, |c: &BoundaryCase, _: &dyn Fn(&BoundaryCase) -> bool| c.clone(), crate::engine::PartOpts { max_shards: usize::MAX, max_shrink_iters: 6 })]
}

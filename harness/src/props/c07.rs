//! C07 — moves are accepted according to the Metropolis rule.

use proptest::prelude::*;
use serde::{Deserialize, Serialize};

use crate::engine::{hash_json, part, Ctx, PartDef, Rec, Tier};
use crate::opt::{run_script, steps_inner, ForcedPolicy, OptCfg, RunOut, WorsePolicy};
use crate::probe::{Decision, Expect};

pub const TITLE: &str = "Moves are accepted according to the Metropolis rule";
pub const RULE: &str = "part deterministic: cyclic scripts of forced outcomes on synthetic states (2..8 parameters, 1..20 loops, kT = 0 or 1e-3..10, with and without a finishing temperature or cooling ratio): better by 1e-300..1e100 => accepted, equal => accepted, undefined => rejected, worse at kT=0 => rejected; the outcome of every step is read off the next proposal (which state it derives from); steps whose outcome cannot be read (two consecutive proposals on one coordinate, or a move clamped to no change) are excluded. part frequencies: constant temperature by construction (a single inner loop, so that no cooling schedule is involved), 8 parameters on [0,1] starting at 0.5 with max_step 1e-3 (never clamped), every proposal scripted worse by d; 12 fixed (d,kT) pairs with exp(-d/kT) in [0.02,0.98] including kT=1e-6 and kT=100, and generated pairs with d/kT log-uniform in [0.02,4] at kT log-uniform in [1e-6,100]; N counted trials per case (quick 2e5, thorough 2e6: a 6-sigma test then resolves an absolute bias of about 0.7% / 0.2%); accepted iff |p_hat - exp(-d/kT)| <= 6 sqrt(p(1-p)/N) + 1/N. Non-trivial = a frequency trial with 0.02<p<0.98, or a deterministic script in which all four kinds of step were resolved; distinct by hash of the case.";

pub fn assumptions() -> Vec<&'static str> {
    vec![
        "the frequency test is a 6-sigma binomial test (false alarm probability below 1e-8 per pair and seed); with the optimiser's own seeded generator it is deterministic per VERIF_SEED",
        "equal-score acceptance at kT>0 has probability 1 under the rule and is only checkable as 'accepted'",
        "ambiguous steps are answered 'undefined' (a forced rejection) and excluded; their occurrence (same coordinate twice in a row) is independent of the outcome under test",
    ]
}

#[derive(Clone, Debug, Serialize, Deserialize)]
pub struct DetCase {
    pub cfg: OptCfg,
    pub n: usize,
    pub decisions: Vec<Decision>,
}

fn det_decision() -> BoxedStrategy<Decision> {
    prop_oneof![
        3 => (-300.0..100.0f64).prop_map(|e| Decision::Better(10f64.powf(e))),
        2 => (-6.0..1.0f64).prop_map(|e| Decision::Better(10f64.powf(e))),
        2 => Just(Decision::Equal),
        3 => Just(Decision::Invalid),
        3 => (-12.0..3.0f64).prop_map(|e| Decision::Worse(10f64.powf(e))),
    ]
    .boxed()
}

fn det_strat(_: &Ctx) -> BoxedStrategy<DetCase> {
    (
        steps_inner(3000, 60),
        prop_oneof![2 => Just(0.), 3 => (-3.0..1.0f64).prop_map(|e| 10f64.powf(e))],
        prop_oneof![Just(None), Just(Some(0.)), Just(Some(0.3))],
        prop_oneof![(-3.0..-1.0f64).prop_map(|e| 10f64.powf(e)), Just(0.01)],
        any::<u64>(),
        2usize..=8,
        proptest::collection::vec(det_decision(), 1..48),
        prop_oneof![2 => Just(None), 1 => Just(Some(0.001)), 1 => Just(Some(0.1)), 1 => Just(Some(0.))],
    )
        .prop_map(|((steps, inner), kt_start, kt_ratio, max_step, seed, n, decisions, kt_finish)| DetCase { cfg: OptCfg { steps, inner, kt_start, kt_finish, kt_ratio, max_step, convergence: if seed % 5 == 0 { Some(1e-9) } else { None }, seed }, n, decisions })
        .boxed()
}

/// judge the deterministic clauses on a finished forced run; returns which kinds were resolved
fn judge_deterministic(out: &RunOut, cfg: &OptCfg) -> Result<[u64; 4], String> {
    let mut seen = [0u64; 4];
    let p = cfg.proposals() as usize;
    for st in out.steps.iter().take(p) {
        let (base, expect, outcome) = match (st.base_score, st.expect, st.outcome) {
            (Some(b), Some(e), Some(o)) => (b, e, o),
            _ => continue,
        };
        match (st.returned, expect) {
            (None, _) => {
                seen[2] += 1;
                if outcome {
                    return Err(format!("proposal #{} has no defined score and was accepted", st.k));
                }
            }
            (Some(r), Expect::Accept) => {
                if r > base {
                    seen[0] += 1;
                } else {
                    seen[1] += 1;
                }
                if !outcome {
                    return Err(format!("proposal #{} scores {} against the current {} ({}) and was rejected", st.k, r, base, if r > base { "better" } else { "equal" }));
                }
            }
            (Some(r), Expect::Reject) => {
                // "never at kT = 0": judged while the temperature is the configured kt_start = 0, i.e. in the first
                // inner loop; whether a zero temperature *stays* zero in later loops is C05's and C18's subject
                if (st.k as u64) <= cfg.inner_eff().max(1) {
                    seen[3] += 1;
                    if outcome {
                        return Err(format!("proposal #{} scores {} against the current {} at kT = 0 and was accepted", st.k, r, base));
                    }
                }
            }
            (Some(_), Expect::Unknown) => {}
        }
    }
    if let Some((k, msg)) = &out.inconsistency {
        // the model follows the rule; a proposal it cannot explain means either that the previous forced decision
        // went the other way (this property's subject) or that the state was corrupted (C06's subject). Only the
        // former is reported: the unexplained proposal must derive from the *other* outcome of the previous step.
        if *k >= 2 && *k - 1 < out.steps.len() {
            let prev = &out.steps[k - 2];
            let cur = &out.steps[k - 1];
            let near = |a: &[f64], b: &[f64]| a.iter().zip(b.iter()).filter(|(x, y)| x.to_bits() != y.to_bits()).count() <= 1;
            let first_loop = (prev.k as u64) <= cfg.inner_eff().max(1);
            let other_world = match (prev.expect, prev.returned) {
                (Some(Expect::Accept), _) => prev.base.as_ref().map(|b| near(b, &cur.proposal)).unwrap_or(false),
                // a worse proposal kept at a nominal kT = 0 after the first loop is the schedule's (C05/C18) subject
                (Some(Expect::Reject), Some(_)) if !first_loop => false,
                (Some(Expect::Reject), _) => near(&prev.proposal, &cur.proposal),
                _ => false,
            };
            if other_world {
                let what = match (prev.returned, prev.expect) {
                    (None, _) => "a proposal without a defined score was accepted",
                    (Some(_), Some(Expect::Accept)) => "a better or equal proposal was rejected",
                    (Some(_), Some(Expect::Reject)) => "a worse proposal was accepted at kT = 0",
                    _ => "the previous forced decision went the other way",
                };
                return Err(format!("{} (proposal #{}: score {:?}, current {:?}); next proposal: {}", what, prev.k, prev.returned, prev.base_score, msg));
            }
        }
        // corrupted trace: not judged here
        return Ok(seen);
    }
    Ok(seen)
}

fn det_oracle(c: &DetCase, rec: &Rec, _: &Ctx) -> Result<(), String> {
    let init = vec![0.5; c.n];
    let bounds = vec![(0., 1.); c.n];
    let kt_zero = c.cfg.kt_start == 0.;
    let policy = ForcedPolicy { decisions: c.decisions.clone(), base: 1.0, proposals: c.cfg.proposals() };
    let out = run_script(&c.cfg, &init, &bounds, kt_zero, true, Box::new(policy));
    rec.eval(out.steps.len() as u64 + 1);
    if out.panicked.is_some() {
        rec.class("panicked-not-judged-here");
        return Ok(());
    }
    let seen = judge_deterministic(&out, &c.cfg)?;
    rec.class_n("resolved/better-accepted", seen[0]);
    rec.class_n("resolved/equal-accepted", seen[1]);
    rec.class_n("resolved/undefined-rejected", seen[2]);
    rec.class_n("resolved/worse-rejected-at-kT0", seen[3]);
    let all = seen[0] > 0 && seen[1] > 0 && seen[2] > 0 && (seen[3] > 0 || !kt_zero);
    let class = format!("deterministic/{}{}", if kt_zero { "kT=0" } else { "kT>0" }, if all { "/all-kinds" } else { "" });
    rec.class(&class);
    if all {
        rec.nontrivial(hash_json(&serde_json::to_value(c).unwrap()));
    }
    if rec.wants_sample(&class) {
        rec.sample(&class, || serde_json::to_value(c).unwrap());
    }
    Ok(())
}

#[derive(Clone, Debug, Serialize, Deserialize)]
pub struct FreqCase {
    /// index into PAIRS, or PAIRS.len() for the generated (x, kt) below
    pub pair: usize,
    /// d / kT for a generated pair
    #[serde(default)]
    pub x: f64,
    #[serde(default)]
    pub kt: f64,
    pub loops: u64,
    pub seed: u64,
}

/// (d, kT) with exp(-d/kT) spread over [0.02, 0.98]
pub const PAIRS: [(f64, f64); 12] = [
    (0.05, 0.1),       // 0.6065
    (0.1, 0.1),        // 0.3679
    (0.3, 0.1),        // 0.0498
    (0.002, 0.1),      // 0.9802
    (1.0e-6, 1.0e-6),  // 0.3679
    (3.5e-6, 1.0e-6),  // 0.0302
    (5.0e-8, 1.0e-6),  // 0.9512
    (100.0, 100.0),    // 0.3679
    (10.0, 100.0),     // 0.9048
    (250.0, 100.0),    // 0.0821
    (0.6931471805599453, 1.0), // 0.5
    (2.0, 1.0),        // 0.1353
];

fn freq_strat(_: &Ctx) -> BoxedStrategy<FreqCase> {
    // half of the cases use the fixed grid, half a generated ratio d/kT log-uniform in [0.02, 4] at a generated kT
    (0usize..24, (-1.7..0.6f64).prop_map(|e| 10f64.powf(e)), (-6.0..2.0f64).prop_map(|e| 10f64.powf(e)), Just(1u64), any::<u64>())
        .prop_map(|(pair, x, kt, loops, seed)| FreqCase { pair: pair.min(12), x, kt, loops, seed })
        .boxed()
}

pub struct Counted {
    pub trials: u64,
    pub accepted: u64,
    pub ambiguous: u64,
}

pub fn count_worse_trials(out: &RunOut, first: usize, last: usize) -> Counted {
    let mut c = Counted { trials: 0, accepted: 0, ambiguous: 0 };
    for st in out.steps.iter() {
        if st.k < first || st.k > last {
            continue;
        }
        match (st.returned, st.base_score, st.outcome) {
            (Some(r), Some(b), Some(o)) if r < b => {
                c.trials += 1;
                if o {
                    c.accepted += 1;
                }
            }
            _ => c.ambiguous += 1,
        }
    }
    c
}

fn freq_oracle(c: &FreqCase, rec: &Rec, ctx: &Ctx) -> Result<(), String> {
    let (d, kt) = if c.pair < PAIRS.len() { PAIRS[c.pair] } else { (c.x * c.kt, c.kt) };
    let want_trials: u64 = if ctx.tier == Tier::Quick { 200_000 } else { 2_000_000 };
    let inner = (want_trials * 8 / 7 + 600) / c.loops;
    let steps = inner * c.loops;
    let cfg = OptCfg { steps, inner, kt_start: kt, kt_finish: None, kt_ratio: Some(0.), max_step: 1e-3, convergence: None, seed: c.seed };
    let policy = WorsePolicy { d_per_loop: vec![d], inner, proposals: cfg.proposals(), base: 0. };
    let out = run_script(&cfg, &vec![0.5; 8], &vec![(0., 1.); 8], false, true, Box::new(policy));
    rec.eval(out.steps.len() as u64 + 1);
    if let Some(p) = &out.panicked {
        return Err(format!("optimiser panicked: {}", p));
    }
    if let Some((k, msg)) = &out.inconsistency {
        return Err(format!("the trace is not explained by any accept/reject history at call {}: {}", k, msg));
    }
    let cnt = count_worse_trials(&out, 1, cfg.proposals() as usize);
    let p = (-d / kt).exp();
    let n = cnt.trials as f64;
    if cnt.trials < want_trials / 2 {
        return Err(format!("only {} of {} steps could be counted; the check is starved", cnt.trials, steps));
    }
    let phat = cnt.accepted as f64 / n;
    let tol = 6. * (p * (1. - p) / n).sqrt() + 1. / n;
    if (phat - p).abs() > tol {
        return Err(format!("moves worse by d = {} at kT = {} were accepted with frequency {:.5} ({} of {}), the Metropolis probability is exp(-d/kT) = {:.5} (6-sigma tolerance {:.5}; {} loops)", d, kt, phat, cnt.accepted, cnt.trials, p, tol, c.loops));
    }
    let class = if c.pair < PAIRS.len() { format!("frequency/pair{}/loops{}", c.pair, c.loops) } else { format!("frequency/generated/d-over-kT-{}", if d / kt < 0.1 { "<0.1" } else if d / kt < 0.5 { "0.1..0.5" } else if d / kt < 1.5 { "0.5..1.5" } else { ">1.5" }) };
    rec.class(&class);
    rec.nontrivial(hash_json(&serde_json::to_value(c).unwrap()));
    if rec.wants_sample(&class) {
        rec.sample(&class, || serde_json::json!({"case": c, "d": d, "kT": kt, "p": p, "p_hat": phat, "trials": cnt.trials, "excluded": cnt.ambiguous}));
    }
    Ok(())
}

pub fn parts() -> Vec<PartDef> {
    vec![part("deterministic", 60_000, 1_200_000, det_strat, det_oracle), part("frequencies", 240, 1_200, freq_strat, freq_oracle)]
}

//! C08 — optimisation keeps parameters in range and the cell in its crystal family.

use std::f64::consts::PI;

use packing::traits::State;
use proptest::prelude::*;
use serde::de::DeserializeOwned;
use serde::{Deserialize, Serialize};
use serde_json::Value;

use crate::engine::{hash_json, part, Ctx, PartDef, Rec};
use crate::gen::{is_oblique, line_shape_spec, mixf, mol_shape_spec};
use crate::geom;
use crate::hard::{oracle_worst, oshape_usable};
use crate::opt::{steps_inner, OptCfg};
use crate::probe::Probe;
use crate::statejson::{self, oshape_from_spec, Params, ShapeSpec};

pub const TITLE: &str = "Optimisation keeps parameters in range and the cell in its crystal family";
pub const RULE: &str = "part initial: every group x {hard polygon 3..12 / convex radial, hard circle / trimer, Lennard-Jones circle / trimer}: the from_group state has a finite defined score (> 0 for hard shapes whose area is well defined), in-range parameters, and (hard) no overlap by the harness's tiling oracle. part chains: an initial or a generated valid in-range state, run through 1..4 successive optimisations with independently generated configurations (1..10 inner loops, kT 0..1, every cooling option, max_step_size from 1e-3 up to 8 (a single move may exceed a parameter's whole range), optional convergence), the state being passed on between stages. After every stage, from the JSON of the returned state and that stage's input: 0.01 <= length <= input length; 0.1 <= ratio <= input ratio; angle in [pi/6, pi/2] for oblique groups and bit-identical otherwise; x,y in [-1/2,1/2]; orientation in [0,2pi]; group label, wallpaper family and cell family unchanged; score() finite and defined. Non-trivial = a chain of >= 2 stages in which a cell parameter changed and some proposal was clamped to a bound; distinct by hash of the case. part multi-site: chains of 1..3 optimiser configurations on valid states with 2..4 occupied sites (3 + 3k parameters), a quarter of them in user-built groups of the square and hexagonal families (1..4 sites; only the cell length may change): after every stage every site's x, y, orientation, the cell parameters (relative to the stage input), the labels and the number of sites are checked and the score must be finite.";

pub fn assumptions() -> Vec<&'static str> {
    vec!["the state is handed from stage to stage through serde_json::Value (bit-exact), which re-derives the bounds from the current values exactly as a fresh generate_basis() does"]
}

#[derive(Clone, Debug, Serialize, Deserialize)]
pub enum Kind {
    HardLine,
    HardMol,
    Lj,
}

#[derive(Clone, Debug, Serialize, Deserialize)]
pub struct InitCase {
    pub group: usize,
    pub kind: Kind,
    pub shape: ShapeSpec,
}

fn shape_for(kind: &Kind) -> BoxedStrategy<ShapeSpec> {
    match kind {
        Kind::HardLine => line_shape_spec(),
        _ => mol_shape_spec(),
    }
}

fn kind_strat() -> BoxedStrategy<Kind> {
    prop_oneof![Just(Kind::HardLine), Just(Kind::HardMol), Just(Kind::Lj)].boxed()
}

fn init_strat(_: &Ctx) -> BoxedStrategy<InitCase> {
    (0usize..7, kind_strat()).prop_flat_map(|(group, kind)| (Just(group), Just(kind.clone()), shape_for(&kind))).prop_map(|(group, kind, shape)| InitCase { group, kind, shape }).boxed()
}

fn well_defined(shape: &ShapeSpec) -> bool {
    match shape {
        ShapeSpec::Trimer { radius, angle, distance } => *radius > 0. && radius.is_finite() && angle.is_finite() && distance.is_finite(),
        _ => true,
    }
}

fn in_range_report(v: &Value, input: Option<&Params>, group: usize, what: &str) -> Result<Params, String> {
    let p = statejson::read_params(v).ok_or_else(|| format!("{}: a parameter of the returned state is not a finite number (its JSON holds no number for one of length, ratio, angle, x, y, orientation)", what))?;
    let eps = 0.;
    let chk = |name: &str, val: f64, lo: f64, hi: f64| -> Result<(), String> {
        if !(val >= lo - eps && val <= hi + eps) {
            Err(format!("{}: {} = {} lies outside its range [{}, {}]", what, name, val, lo, hi))
        } else {
            Ok(())
        }
    };
    chk("site x", p.x, -0.5, 0.5)?;
    chk("site y", p.y, -0.5, 0.5)?;
    chk("site orientation", p.phi, 0., 2. * PI)?;
    match input {
        Some(i) => {
            chk("cell length", p.length, 0.01, i.length)?;
            chk("cell side ratio", p.ratio, 0.1, i.ratio)?;
            if is_oblique(group) {
                chk("cell angle", p.angle, PI / 6., PI / 2.)?;
            } else if p.angle.to_bits() != i.angle.to_bits() {
                return Err(format!("{}: the cell angle of a rectangular group changed from {} to {}", what, i.angle, p.angle));
            }
        }
        None => {
            if !(p.length > 0. && p.length.is_finite()) {
                return Err(format!("{}: cell length {}", what, p.length));
            }
            chk("cell side ratio", p.ratio, 0.1, 1.0)?;
            chk("cell angle", p.angle, PI / 6., PI / 2.)?;
        }
    }
    Ok(p)
}

fn labels(v: &Value) -> (String, String, String) {
    (v["wallpaper"]["name"].as_str().unwrap_or("?").to_string(), v["wallpaper"]["family"].as_str().unwrap_or("?").to_string(), v["cell"]["family"].as_str().unwrap_or("?").to_string())
}

fn init_oracle(c: &InitCase, rec: &Rec, _: &Ctx) -> Result<(), String> {
    let wg = statejson::wg(c.group);
    let name = geom::GROUP_NAMES[c.group];
    rec.eval(1);
    let (score, v) = match c.kind {
        Kind::HardLine => {
            let s = packing::PackedState::from_group(statejson::line_shape(&c.shape).ok_or("shape")?, &wg).map_err(|e| e.to_string())?;
            (s.score(), serde_json::to_value(&s).map_err(|e| e.to_string())?)
        }
        Kind::HardMol => {
            let s = packing::PackedState::from_group(statejson::mol_shape(&c.shape).ok_or("shape")?, &wg).map_err(|e| e.to_string())?;
            (s.score(), serde_json::to_value(&s).map_err(|e| e.to_string())?)
        }
        Kind::Lj => {
            let s = packing::PotentialState::from_group(statejson::lj_shape(&c.shape).ok_or("shape")?, &wg).map_err(|e| e.to_string())?;
            (s.score(), serde_json::to_value(&s).map_err(|e| e.to_string())?)
        }
    };
    if !well_defined(&c.shape) {
        rec.class("initial/skipped-shape-without-area");
        return Ok(());
    }
    let what = format!("initial state of {} with {:?}", name, c.shape);
    let p = in_range_report(&v, None, c.group, &what)?;
    match score {
        Some(s) if s.is_finite() => {
            if !matches!(c.kind, Kind::Lj) && !(s > 0.) {
                return Err(format!("{}: hard score {} is not positive", what, s));
            }
        }
        other => return Err(format!("{}: score() = {:?}, not a finite defined score", what, other)),
    }
    if !matches!(c.kind, Kind::Lj) {
        let os = oshape_from_spec(&c.shape);
        if oshape_usable(&os) {
            if let Some(w) = oracle_worst(&os, c.group, &p) {
                if w.gap < -1e-9 {
                    return Err(format!("{}: copies overlap by {:e} (copy {} and image ({}, {}) of copy {})", what, -w.gap, w.i, w.n, w.m, w.j));
                }
            }
        }
    }
    let class = format!("initial/{:?}/{}", c.kind, name);
    rec.class(&class);
    rec.nontrivial(hash_json(&serde_json::to_value(c).unwrap()));
    if rec.wants_sample(&class) {
        rec.sample(&class, || serde_json::json!({"case": c, "score": score, "params": p}));
    }
    Ok(())
}

#[derive(Clone, Debug, Serialize, Deserialize)]
pub struct ChainCase {
    pub group: usize,
    pub kind: Kind,
    pub shape: ShapeSpec,
    /// None = the from_group state
    pub start: Option<(f64, f64, f64, f64, f64, f64)>,
    pub stages: Vec<OptCfg>,
}

fn cfg_strat() -> BoxedStrategy<OptCfg> {
    (
        steps_inner(2500, 10),
        prop_oneof![2 => Just(0.), 2 => (-3.0..0.0f64).prop_map(|e| 10f64.powf(e))],
        prop_oneof![Just(None), Just(Some(0.001)), Just(Some(0.))],
        prop_oneof![Just(None), Just(Some(0.1)), Just(Some(0.))],
        prop_oneof![4 => (-3.0..0.0f64).prop_map(|e| 10f64.powf(e)), 4 => Just(1.0), 2 => Just(0.01), 1 => Just(2.5), 1 => Just(5.0), 1 => (1.0..8.0f64)],
        prop_oneof![3 => Just(None), 1 => Just(Some(1e-6))],
        any::<u64>(),
    )
        .prop_map(|((steps, inner), kt_start, kt_finish, kt_ratio, max_step, convergence, seed)| OptCfg { steps, inner, kt_start, kt_finish, kt_ratio, max_step, convergence, seed })
        .boxed()
}

fn chain_strat(_: &Ctx) -> BoxedStrategy<ChainCase> {
    (0usize..7, kind_strat())
        .prop_flat_map(|(group, kind)| {
            let angle = if is_oblique(group) { mixf(PI / 6., PI / 2., vec![PI / 2., PI / 3.]) } else { Just(PI / 2.).boxed() };
            let start = prop_oneof![
                1 => Just(None),
                2 => ((0.3..1.6f64), mixf(0.1, 1.0, vec![1.0, 0.5]), angle, mixf(-0.5, 0.5, vec![0.]), mixf(-0.5, 0.5, vec![0.]), mixf(0., 2. * PI, vec![0.])).prop_map(|(a, b, c, d, e, f)| Some((a, b, c, d, e, f))),
            ];
            (Just(group), Just(kind.clone()), shape_for(&kind), start, proptest::collection::vec(cfg_strat(), 1..=4))
        })
        .prop_map(|(group, kind, shape, start, stages)| ChainCase { group, kind, shape, start, stages })
        .boxed()
}

/// does the changed coordinate of a proposal sit exactly on a bound of the field it drives?
fn bounds_hit(params: &[f64], changed: usize, reader: &statejson::ParamReader, input: &Params) -> bool {
    let b: [(f64, f64); 6] = [(0.01, input.length), (0.1, input.ratio), (PI / 6., PI / 2.), (-0.5, 0.5), (-0.5, 0.5), (0., 2. * PI)];
    match reader.field_of.get(changed).copied().flatten() {
        Some(f) if changed < params.len() => params[changed] == b[f].0 || params[changed] == b[f].1,
        _ => false,
    }
}

fn run_chain<S>(mut state: S, c: &ChainCase, rec: &Rec) -> Result<Option<(bool, bool, usize)>, String>
where
    S: State + Serialize + DeserializeOwned,
{
    let v0 = serde_json::to_value(&state).map_err(|e| e.to_string())?;
    if !state.score().map(|s| s.is_finite()).unwrap_or(false) {
        return Ok(None);
    }
    let (name0, wfam0, cfam0) = labels(&v0);
    let mut input = statejson::read_params(&v0).ok_or("input JSON lacks parameters")?;
    let mut cell_changed = false;
    let mut clamped = false;
    let mut done = 0usize;
    for (k, cfg) in c.stages.iter().enumerate() {
        let reader = match statejson::ParamReader::new(&state) {
            Some(r) => r,
            None => return Ok(Some((cell_changed, clamped, done))),
        };
        // A proposal that holds a non-finite parameter ends the run there: the stage is repeated with `steps` equal to
        // that proposal's number (another valid configuration, same seed), so that what is judged is still the state
        // a real run returns, while a run that is blind to NaN cannot spend minutes in degenerate cells first.
        let exec = |cfg: &OptCfg, stop: bool| {
            let mut probe = Probe::new(state.clone(), cfg.kt_start == 0.);
            probe.stop_on_nonfinite = stop;
            let model = probe.model.clone();
            {
                let mut m = model.lock().unwrap();
                m.mode = crate::probe::Mode::Agnostic;
            }
            let cfg2 = cfg.clone();
            let res = std::panic::catch_unwind(std::panic::AssertUnwindSafe(move || {
                let out = cfg2.build().optimise_state(probe);
                (serde_json::to_value(&out).ok(), out.score())
            }));
            (res, model)
        };
        let (mut res, mut model) = exec(cfg, true);
        let mut cfg_used = cfg.clone();
        if let Err(e) = &res {
            if let Some(crate::probe::NonFiniteStop(n)) = e.downcast_ref::<crate::probe::NonFiniteStop>() {
                rec.class("chain/cut-at-non-finite-proposal");
                cfg_used.steps = *n;
                cfg_used.inner = cfg_used.inner.min(*n).max(1);
                let r = exec(&cfg_used, false);
                res = r.0;
                model = r.1;
            }
        }
        let cfg = &cfg_used;
        let (v, score) = match res {
            Ok((Some(v), s)) => (v, s),
            Ok((None, _)) => return Err(format!("stage {}: the returned state does not serialise", k + 1)),
            Err(_) => {
                // panics are C20's subject
                rec.class("chain/stage-panicked-not-judged-here");
                return Ok(Some((cell_changed, clamped, done)));
            }
        };
        {
            let m = model.lock().unwrap_or_else(|e| e.into_inner());
            rec.eval(m.steps.len() as u64 + 1);
            for st in m.steps.iter() {
                if let Some(i) = st.changed {
                    if bounds_hit(&st.proposal, i, &reader, &input) {
                        clamped = true;
                    }
                }
            }
        }
        let what = format!("stage {} of {} ({:?} in {}, config {:?})", k + 1, c.stages.len(), c.shape, geom::GROUP_NAMES[c.group], cfg);
        let p = in_range_report(&v, Some(&input), c.group, &what)?;
        let (name, wfam, cfam) = labels(&v);
        if name != name0 || wfam != wfam0 || cfam != cfam0 {
            return Err(format!("{}: labels changed from ({}, {}, {}) to ({}, {}, {})", what, name0, wfam0, cfam0, name, wfam, cfam));
        }
        match score {
            Some(s) if s.is_finite() => {}
            other => return Err(format!("{}: the returned state's score is {:?}, not finite and defined", what, other)),
        }
        if p.length != input.length || p.ratio != input.ratio || p.angle != input.angle {
            cell_changed = true;
        }
        state = serde_json::from_value(v).map_err(|e| format!("{}: output does not deserialise: {}", what, e))?;
        input = p;
        done += 1;
    }
    Ok(Some((cell_changed, clamped, done)))
}

fn chain_oracle(c: &ChainCase, rec: &Rec, _: &Ctx) -> Result<(), String> {
    if !well_defined(&c.shape) {
        rec.class("chain/skipped-shape-without-area");
        return Ok(());
    }
    let wg = statejson::wg(c.group);
    macro_rules! start {
        ($init:expr) => {{
            let init = $init;
            match c.start {
                None => init,
                Some((scale, ratio, angle, x, y, phi)) => {
                    let p0 = statejson::params_of(&init).ok_or("params")?;
                    // scale the initial (valid, dilute) cell; smaller scales may overlap and are skipped below
                    let p = Params { length: p0.length * scale, ratio, angle: if is_oblique(c.group) { angle } else { p0.angle }, x, y, phi };
                    statejson::with_params(&init, &p)?
                }
            }
        }};
    }
    let r = match c.kind {
        Kind::HardLine => run_chain(start!(packing::PackedState::from_group(statejson::line_shape(&c.shape).ok_or("shape")?, &wg).map_err(|e| e.to_string())?), c, rec)?,
        Kind::HardMol => run_chain(start!(packing::PackedState::from_group(statejson::mol_shape(&c.shape).ok_or("shape")?, &wg).map_err(|e| e.to_string())?), c, rec)?,
        Kind::Lj => run_chain(start!(packing::PotentialState::from_group(statejson::lj_shape(&c.shape).ok_or("shape")?, &wg).map_err(|e| e.to_string())?), c, rec)?,
    };
    match r {
        None => rec.class("chain/skipped-start-without-finite-score"),
        Some((cell_changed, clamped, done)) => {
            let nt = cell_changed && clamped && done >= 2;
            let class = format!("chain/{:?}/stages{}{}{}", c.kind, done, if cell_changed { "/cell-moved" } else { "" }, if clamped { "/clamped" } else { "" });
            rec.class(&class);
            if nt {
                rec.nontrivial(hash_json(&serde_json::to_value(c).unwrap()));
            }
            if rec.wants_sample(&class) {
                rec.sample(&class, || serde_json::to_value(c).unwrap());
            }
        }
    }
    Ok(())
}

// ------------------------------------------------------------------------------------------------
// multi-site: chains on states with 2..4 occupied sites (3 cell + 3k site parameters)

#[derive(Clone, Debug, Serialize, Deserialize)]
pub struct MultiChain {
    pub spec: crate::multisite::MultiSpec,
    pub lj: bool,
    pub stages: Vec<OptCfg>,
    /// Some(i): a user-built group of the square (p4, p4mm) or hexagonal family instead of spec.group; the cell of
    /// such a family has one free parameter, its length
    #[serde(default)]
    pub custom: Option<usize>,
}

fn multi_strat(_: &Ctx) -> BoxedStrategy<MultiChain> {
    let shape = prop_oneof![1 => crate::gen::line_shape_spec(), 2 => crate::gen::mol_shape_spec()];
    (crate::multisite::multi_strat(shape.boxed(), 0.01, 0.2, 1, 4), any::<bool>(), proptest::collection::vec(cfg_strat(), 1..=3), prop_oneof![3 => Just(None), 1 => proptest::sample::select(vec![0usize, 1, 3]).prop_map(Some)])
        .prop_map(|(mut spec, lj, stages, custom)| {
            match custom {
                Some(3) => {
                    spec.ratio = 1.;
                    spec.angle = PI / 3.;
                }
                Some(_) => {
                    spec.ratio = 1.;
                    spec.angle = PI / 2.;
                }
                None => {
                    if spec.sites.len() < 2 {
                        // single sites of the built-in groups are the subject of the part `chains`
                        let extra = spec.sites[0];
                        spec.sites.push((-extra.0, extra.1 * 0.5, extra.2));
                    }
                }
            }
            MultiChain { lj: lj && !matches!(spec.shape, ShapeSpec::Polygon { .. } | ShapeSpec::Radial { .. }), spec, stages, custom }
        })
        .boxed()
}

fn multi_ranges(v: &Value, input: &Value, group: usize, custom: bool, what: &str) -> Result<bool, String> {
    let chk = |name: String, val: f64, lo: f64, hi: f64| -> Result<(), String> {
        if !(val >= lo && val <= hi) {
            Err(format!("{}: {} = {} lies outside its range [{}, {}]", what, name, val, lo, hi))
        } else {
            Ok(())
        }
    };
    let num = |x: &Value, n: &str| x[n].as_f64().ok_or_else(|| format!("{}: the returned state holds no finite number for {} (JSON null)", what, n));
    let (sites, sites0) = (v["occupied_sites"].as_array().ok_or("no sites")?, input["occupied_sites"].as_array().ok_or("no sites")?);
    if sites.len() != sites0.len() {
        return Err(format!("{}: the number of occupied sites changed from {} to {}", what, sites0.len(), sites.len()));
    }
    for (i, s) in sites.iter().enumerate() {
        chk(format!("x of site {}", i), num(s, "x")?, -0.5, 0.5)?;
        chk(format!("y of site {}", i), num(s, "y")?, -0.5, 0.5)?;
        chk(format!("orientation of site {}", i), num(s, "angle")?, 0., 2. * PI)?;
    }
    let (c, c0) = (&v["cell"], &input["cell"]);
    chk("cell length".to_string(), num(c, "length")?, 0.01, num(c0, "length")?)?;
    chk("cell side ratio".to_string(), num(c, "ratio")?, 0.1, num(c0, "ratio")?)?;
    if custom {
        // square and hexagonal families: the length is the only free cell parameter
        for n in ["ratio", "angle"].iter() {
            if num(c, n)?.to_bits() != num(c0, n)?.to_bits() {
                return Err(format!("{}: the cell {} of a {} cell changed from {} to {}", what, n, c0["family"], c0[*n], c[*n]));
            }
        }
    } else if is_oblique(group) {
        chk("cell angle".to_string(), num(c, "angle")?, PI / 6., PI / 2.)?;
    } else if num(c, "angle")?.to_bits() != num(c0, "angle")?.to_bits() {
        return Err(format!("{}: the cell angle of a rectangular group changed from {} to {}", what, c0["angle"], c["angle"]));
    }
    if labels(v) != labels(input) {
        return Err(format!("{}: labels changed from {:?} to {:?}", what, labels(input), labels(v)));
    }
    Ok(c != c0)
}

fn run_multi<S: State + Serialize + DeserializeOwned>(mut state: S, c: &MultiChain, rec: &Rec) -> Result<Option<(usize, bool)>, String> {
    if !state.score().map(|s| s.is_finite()).unwrap_or(false) {
        return Ok(None);
    }
    let mut input = serde_json::to_value(&state).map_err(|e| e.to_string())?;
    let mut moved = false;
    let mut done = 0;
    for (k, cfg) in c.stages.iter().enumerate() {
        // as in run_chain: a proposal with a non-finite parameter ends the run, which is repeated with that many steps
        let exec = |cfg: &OptCfg, stop: bool| {
            let mut st = Probe::new(state.clone(), cfg.kt_start == 0.);
            st.stop_on_nonfinite = stop;
            st.model.lock().unwrap().mode = crate::probe::Mode::Agnostic;
            let cfg2 = cfg.clone();
            std::panic::catch_unwind(std::panic::AssertUnwindSafe(move || {
                let out = cfg2.build().optimise_state(st);
                (serde_json::to_value(&out).ok(), out.score())
            }))
        };
        let mut res = exec(cfg, true);
        let mut cfg_used = cfg.clone();
        if let Err(e) = &res {
            if let Some(crate::probe::NonFiniteStop(n)) = e.downcast_ref::<crate::probe::NonFiniteStop>() {
                rec.class("cut-at-non-finite-proposal");
                cfg_used.steps = *n;
                cfg_used.inner = cfg_used.inner.min(*n).max(1);
                res = exec(&cfg_used, false);
            }
        }
        let cfg = &cfg_used;
        rec.eval(cfg.proposals() + 1);
        let (v, score) = match res {
            Ok((Some(v), s)) => (v, s),
            Ok((None, _)) => return Err(format!("stage {}: the returned state does not serialise", k + 1)),
            Err(_) => {
                rec.class("stage-panicked-not-judged-here");
                return Ok(Some((done, moved)));
            }
        };
        let what = format!("stage {} of {} on a state with {} occupied sites ({}, config {:?})", k + 1, c.stages.len(), c.spec.sites.len(), c.spec.describe(), cfg);
        if multi_ranges(&v, &input, c.spec.group, c.custom.is_some(), &what)? {
            moved = true;
        }
        match score {
            Some(s) if s.is_finite() => {}
            other => return Err(format!("{}: the returned state's score is {:?}, not finite and defined", what, other)),
        }
        state = serde_json::from_value(v.clone()).map_err(|e| format!("{}: output does not deserialise: {}", what, e))?;
        input = v;
        done += 1;
    }
    Ok(Some((done, moved)))
}

fn multi_oracle(c: &MultiChain, rec: &Rec, _: &Ctx) -> Result<(), String> {
    if !well_defined(&c.spec.shape) {
        rec.class("skipped-shape-without-area");
        return Ok(());
    }
    let wg = match c.custom {
        Some(i) => crate::multisite::custom_group(i).0,
        None => statejson::wg(c.spec.group),
    };
    let r = match (&c.spec.shape, c.lj) {
        (ShapeSpec::Polygon { .. }, _) | (ShapeSpec::Radial { .. }, _) => run_multi(crate::multisite::packed_line_in(&wg, &c.spec)?, c, rec)?,
        (_, false) => run_multi(crate::multisite::packed_mol_in(&wg, &c.spec)?, c, rec)?,
        (_, true) => run_multi(crate::multisite::potential_in(&wg, &c.spec)?, c, rec)?,
    };
    match r {
        None => rec.class("skipped-start-without-finite-score"),
        Some((done, moved)) => {
            let class = format!("{}/{}{}sites/stages{}{}", if c.lj { "lj" } else { "hard" }, if let Some(i) = c.custom { format!("{}/", crate::multisite::custom_group(i).0.name) } else { String::new() }, c.spec.sites.len(), done, if moved { "/cell-moved" } else { "" });
            rec.class(&class);
            if moved && done >= 2 {
                rec.nontrivial(hash_json(&serde_json::to_value(c).unwrap()));
            }
            if rec.wants_sample(&class) {
                rec.sample(&class, || serde_json::to_value(c).unwrap());
            }
        }
    }
    Ok(())
}

/// C20's use of the same chains (part real-chains): plain runs of the stages, judged only on "returns without
/// panicking"; a stage that returns a state without a finite score ends the chain (that is this property's subject).
pub fn chain_strat_for_c20(ctx: &Ctx) -> BoxedStrategy<ChainCase> {
    chain_strat(ctx)
}

fn plain_chain<S: State + Serialize + DeserializeOwned>(mut state: S, c: &ChainCase) -> Result<Option<usize>, String> {
    if !state.score().map(|s| s.is_finite()).unwrap_or(false) {
        return Ok(None);
    }
    for (k, cfg) in c.stages.iter().enumerate() {
        let cfg2 = cfg.clone();
        let s = state.clone();
        let res = std::panic::catch_unwind(std::panic::AssertUnwindSafe(move || serde_json::to_value(&cfg2.build().optimise_state(s)).ok()));
        match res {
            Ok(Some(v)) => match serde_json::from_value(v) {
                Ok(st) => state = st,
                Err(_) => return Ok(Some(k + 1)),
            },
            Ok(None) => return Ok(Some(k + 1)),
            Err(e) => {
                let msg = if let Some(s) = e.downcast_ref::<&str>() {
                    s.to_string()
                } else if let Some(s) = e.downcast_ref::<String>() {
                    s.clone()
                } else {
                    "panic".to_string()
                };
                return Err(format!("stage {} of {} ({:?} in {}, config {:?}) panicked on a state with a finite score: {}", k + 1, c.stages.len(), c.shape, geom::GROUP_NAMES[c.group], cfg, msg));
            }
        }
        if !state.score().map(|s| s.is_finite()).unwrap_or(false) {
            return Ok(Some(k + 1));
        }
    }
    Ok(Some(c.stages.len()))
}

/// Ok(None): start without a finite score (not a valid state); Ok(Some(n)): n stages returned; Err: a stage panicked
pub fn run_chain_plain(c: &ChainCase) -> Result<Option<usize>, String> {
    if !well_defined(&c.shape) {
        return Ok(None);
    }
    let wg = statejson::wg(c.group);
    macro_rules! start {
        ($init:expr) => {{
            let init = $init;
            match c.start {
                None => init,
                Some((scale, ratio, angle, x, y, phi)) => {
                    let p0 = statejson::params_of(&init).ok_or("params")?;
                    let p = Params { length: p0.length * scale, ratio, angle: if is_oblique(c.group) { angle } else { p0.angle }, x, y, phi };
                    statejson::with_params(&init, &p)?
                }
            }
        }};
    }
    match c.kind {
        Kind::HardLine => plain_chain(start!(packing::PackedState::from_group(statejson::line_shape(&c.shape).ok_or("shape")?, &wg).map_err(|e| e.to_string())?), c),
        Kind::HardMol => plain_chain(start!(packing::PackedState::from_group(statejson::mol_shape(&c.shape).ok_or("shape")?, &wg).map_err(|e| e.to_string())?), c),
        Kind::Lj => plain_chain(start!(packing::PotentialState::from_group(statejson::lj_shape(&c.shape).ok_or("shape")?, &wg).map_err(|e| e.to_string())?), c),
    }
}

pub fn parts() -> Vec<PartDef> {
    vec![part("initial", 40_000, 1_000_000, init_strat, init_oracle), part("chains", 2_500, 75_000, chain_strat, chain_oracle), part("multi-site", 400, 12_000, multi_strat, multi_oracle)]
}

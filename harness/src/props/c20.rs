//! C20 — the optimiser terminates normally and does the amount of work requested.

use proptest::prelude::*;
use proptest::sample::select;
use serde::{Deserialize, Serialize};

use crate::cli::{self, CliArgs, CliShape};
use crate::engine::{hash_json, part, Ctx, PartDef, Rec};
use crate::opt::{landscape_strat, run_script, same_bits, Landscape, LandscapePolicy, OptCfg, RunOut};
use crate::probe::Expect;

pub const TITLE: &str = "The optimiser terminates normally and does the amount of work requested";
pub const RULE: &str = "part work: steps in {0,1,2,...,5000} (small values favoured), inner_steps in {0,1,...,2*steps+1} (multiples, non-multiples, larger than steps), kT >= 0 with every cooling option, max_step_size in {0, 1e-9..1e-6 of a range of 2e6 (absolute moves 1e-3..1, never clamped)}, convergence in {None,0,1e-9,1e-3,1e9}, synthetic states (3..6 parameters on a wide range, so no move is clamped) scored by a generated landscape (concave, rippled, plateaus: converging early, late or never). Oracle: no panic; the number of proposals P (score() calls that changed a parameter) satisfies steps - min(inner,steps) < P <= steps (P = 0 when steps or inner_steps is 0) with one evaluation before and at most one after; the run with a convergence threshold is a bit-exact prefix of the run without it (same seed), and a proper prefix ends at an inner-loop boundary m >= 6 whose last six loops each improved the current score by less than the threshold (improvements recomputed from the trace at kT=0). part small-scope: every configuration with steps 0..16, inner_steps 0..2*steps+1 (and 1000), kT in {0, 0.5}, convergence None or a threshold every loop meets (complete enumeration): the exact number of proposals. part cli: argument vectors from a grammar of valid and invalid values (group names incl. unknown, polygon sides 0..12 and -1, LJ+polygon, trimer options incl. degenerate, replications 0..3, steps and inner-steps incl. 0, unknown potential, missing output directory, a directory in the place of the .svg file); oracle: exit 0 with both output files present and parseable, or exit != 0 with a message on stderr, never exit 101 / 'panicked at'. part real-chains: the chains of 1..4 optimiser stages generated for C08 (every group; hard polygons, hard discs, Lennard-Jones; from_group and rescaled starts; step sizes 1e-3..8; kT >= 0) run on the real states, the state handed on through its JSON: no stage may panic on a state with a finite score. Non-trivial = inner does not divide steps, or (real-chains) two or more stages completed, or steps*inner = 0, or an early exit occurred, or (cli) an invalid argument vector; distinct by hash of the case.";

pub fn assumptions() -> Vec<&'static str> {
    vec!["a CLI run that exceeds 120 s is reported as inconclusive (exit 2), not as a violation", "with max_step_size = 0 proposals cannot be told from the final validity evaluation; the count is then accepted under either reading"]
}

#[derive(Clone, Debug, Serialize, Deserialize)]
pub struct WorkCase {
    pub cfg: OptCfg,
    pub n: usize,
    pub land: Landscape,
    pub init: Vec<f64>,
    /// a parameter whose limits coincide (min = max = its start value): proposals on it change nothing but are steps of
    /// the run all the same; work is then counted in score evaluations
    #[serde(default)]
    pub fixed: Option<u16>,
}

fn work_strat(_: &Ctx) -> BoxedStrategy<WorkCase> {
    let steps = prop_oneof![2 => 0u64..=12, 2 => 13u64..=300, 2 => 301u64..=5000, 1 => Just(0u64), 1 => Just(1u64)];
    (steps, 3usize..=6)
        .prop_flat_map(|(steps, n)| {
            let inner = prop_oneof![
                1 => Just(0u64),
                3 => 0u64..=(2 * steps + 1),
                2 => (1u64..=40).prop_map(move |l| (steps / l).max(1)),
                1 => Just(1u64),
                1 => Just(steps),
                1 => Just(1000u64),
            ];
            (
                Just(steps),
                inner,
                prop_oneof![2 => Just(0.), 2 => (-4.0..1.0f64).prop_map(|e| 10f64.powf(e))],
                prop_oneof![Just(None), Just(Some(0.)), Just(Some(1e-3)), Just(Some(10.))],
                prop_oneof![Just(None), Just(Some(0.)), Just(Some(0.1)), Just(Some(1.))],
                // bounds are +-1e6: a relative step of 1e-9..1e-6 is an absolute move of 1e-3..1, and no run is long
                // enough to reach a bound (a clamped no-op proposal would be indistinguishable from a final evaluation)
                prop_oneof![1 => Just(0.), 5 => (-9.0..-6.0f64).prop_map(|e| 10f64.powf(e))],
                prop_oneof![Just(None), Just(Some(0.)), Just(Some(1e-9)), Just(Some(1e-3)), Just(Some(1e9))],
                any::<u64>(),
                Just(n),
                landscape_strat(n, -10., 10.),
                proptest::collection::vec(-5.0..5.0f64, n),
                prop_oneof![4 => Just(None), 1 => any::<u16>().prop_map(Some)],
            )
        })
        .prop_map(|(steps, inner, kt_start, kt_finish, kt_ratio, max_step, convergence, seed, n, mut land, init, fixed)| {
            land.invalid = None; // the start must be valid for every seed
            WorkCase { cfg: OptCfg { steps, inner, kt_start, kt_finish, kt_ratio, max_step, convergence, seed }, n, land, init, fixed }
        })
        .boxed()
}

fn run(c: &WorkCase, cfg: &OptCfg) -> RunOut {
    let mut bounds = vec![(-1.0e6, 1.0e6); c.n];
    if let Some(f) = c.fixed {
        let i = crate::engine::idx(f, c.n);
        bounds[i] = (c.init[i], c.init[i]);
    }
    run_script(cfg, &c.init, &bounds, cfg.kt_start == 0., true, Box::new(LandscapePolicy(c.land.clone())))
}

/// proposals = evaluations that are not bit-identical to a state the optimiser can be in (decision-agnostic
/// model); trailing = evaluations after the last proposal. None when that model cannot explain the trace (the
/// state was corrupted: C06's subject) — the caller then accepts either reading of the last evaluation.
fn count_work(out: &RunOut) -> Option<(u64, u64)> {
    if out.shadow_inconsistency.is_some() {
        return None;
    }
    let mut p = 0u64;
    let mut last_changed = 0usize;
    for (ix, st) in out.shadow_steps.iter().enumerate() {
        if !st.maybe_noop {
            p += 1;
            last_changed = ix + 1;
        }
    }
    Some((p, (out.shadow_steps.len() - last_changed) as u64))
}

fn check_amount(out: &RunOut, cfg: &OptCfg, what: &str, countable: bool) -> Result<(), String> {
    if let Some(p) = &out.panicked {
        return Err(format!("{}: optimise_state panicked: {} (steps {}, inner_steps {})", what, p, cfg.steps, cfg.inner));
    }
    let calls = out.calls_during_run as u64;
    if calls == 0 {
        return Err(format!("{}: the input state was never evaluated", what));
    }
    let inner_eff = cfg.inner_eff();
    let (mut lo_excl, hi) = if cfg.steps == 0 || cfg.inner == 0 { (-1i64, 0i64) } else { (cfg.steps as i64 - inner_eff as i64, cfg.steps as i64) };
    if cfg.convergence.is_some() {
        // an early exit is allowed; when and where is judged by the prefix comparison
        lo_excl = -1;
    }
    let counted = if cfg.max_step > 0. && countable { count_work(out) } else { None };
    if let Some((p, trailing)) = counted {
        let p = p as i64;
        if !(p > lo_excl && p <= hi) {
            return Err(format!("{}: {} proposals were evaluated for steps = {}, inner_steps = {} (allowed: more than {} and at most {})", what, p, cfg.steps, cfg.inner, lo_excl.max(-1), hi));
        }
        if trailing > 1 {
            return Err(format!("{}: {} evaluations after the last proposal (at most one is allowed)", what, trailing));
        }
    } else {
        // proposals are indistinguishable from the final evaluation: accept either reading
        let a = calls as i64 - 2;
        let b = calls as i64 - 1;
        if !((a > lo_excl && a <= hi) || (b > lo_excl && b <= hi)) {
            return Err(format!("{}: {} score evaluations for steps = {}, inner_steps = {}", what, calls, cfg.steps, cfg.inner));
        }
    }
    Ok(())
}

fn work_oracle(c: &WorkCase, rec: &Rec, _: &Ctx) -> Result<(), String> {
    if c.land.eval(&c.init).is_none() {
        rec.class("skipped-invalid-start");
        return Ok(());
    }
    let out = run(c, &c.cfg);
    rec.eval(out.calls_during_run as u64);
    check_amount(&out, &c.cfg, "run", c.fixed.is_none())?;
    let mut early = false;
    if let Some(thr) = c.cfg.convergence {
        // reference run without the threshold
        let mut cfg0 = c.cfg.clone();
        cfg0.convergence = None;
        let full = run(c, &cfg0);
        rec.eval(full.calls_during_run as u64);
        check_amount(&full, &cfg0, "reference run without convergence", c.fixed.is_none())?;
        let counts = if c.cfg.max_step > 0. && c.fixed.is_none() { count_work(&out).zip(count_work(&full)) } else { None };
        let (pb, pa) = match counts {
            Some(((pb, _), (pa, _))) => (pb, pa),
            None => (0, 0),
        };
        let precise = counts.is_some();
        let nb = if precise { pb as usize } else { out.steps.len().min(full.steps.len()) };
        // prefix, bit for bit
        for i in 0..nb.min(out.steps.len()) {
            if i >= full.steps.len() || !same_bits(&out.steps[i].proposal, &full.steps[i].proposal) {
                return Err(format!("with convergence = {:e} call #{} evaluates {:?}; the run without a threshold evaluates {:?} there (not a prefix)", thr, i + 1, out.steps[i].proposal, full.steps.get(i).map(|s| s.proposal.clone())));
            }
        }
        if precise && pb > pa {
            return Err(format!("with convergence = {:e} the run evaluates {} proposals, more than the {} of the run without a threshold", thr, pb, pa));
        }
        if precise && pb < pa {
            early = true;
            let inner = c.cfg.inner_eff().max(1);
            if pb % inner != 0 {
                return Err(format!("early exit after {} proposals, which is not a whole number of inner loops of {}", pb, inner));
            }
            let m = pb / inner;
            if m < 6 {
                return Err(format!("early exit after only {} inner loops; more than five consecutive converged loops are required", m));
            }
            if c.cfg.kt_start == 0. && full.inconsistency.is_none() {
                // current score after each step, from the deterministic kT=0 model
                let mut cur = full.initial.as_ref().map(|i| i.score).unwrap_or(f64::NAN);
                let mut at_loop_end = vec![cur];
                for st in full.steps.iter().take(pb as usize) {
                    if let (Some(Expect::Accept), Some(r)) = (st.expect, st.returned) {
                        cur = r;
                    }
                    if st.k as u64 % inner == 0 {
                        at_loop_end.push(cur);
                    }
                }
                for j in (m - 5)..=m {
                    let gain = at_loop_end[j as usize] - at_loop_end[j as usize - 1];
                    if !(gain < thr) {
                        return Err(format!("early exit after loop {} although loop {} improved the score by {:e}, not less than the threshold {:e}", m, j, gain, thr));
                    }
                }
            }
        }
    }
    let nt = c.cfg.steps == 0 || c.cfg.inner == 0 || c.cfg.steps % c.cfg.inner.max(1) != 0 || early;
    let class = format!(
        "work/{}{}{}",
        if c.cfg.steps == 0 || c.cfg.inner == 0 {
            "zero-work"
        } else if c.cfg.inner > c.cfg.steps {
            "inner>steps"
        } else if c.cfg.steps % c.cfg.inner != 0 {
            "non-multiple"
        } else {
            "multiple"
        },
        if c.cfg.convergence.is_some() { "/convergence" } else { "" },
        if early { "/early-exit" } else { "" }
    );
    rec.class(&class);
    if nt {
        rec.nontrivial(hash_json(&serde_json::to_value(c).unwrap()));
    }
    if rec.wants_sample(&class) {
        rec.sample(&class, || serde_json::to_value(c).unwrap());
    }
    Ok(())
}

// ------------------------------------------------------------------------------------------------

#[derive(Clone, Debug, Serialize, Deserialize)]
pub struct CliCase {
    pub args: CliArgs,
    pub bad_outdir: bool,
    /// a directory sits where the .svg file has to be written (the .json path stays writable)
    #[serde(default)]
    pub block_svg: bool,
}

pub fn cli_shape() -> BoxedStrategy<CliShape> {
    prop_oneof![
        3 => prop_oneof![Just(None), (0i64..=12).prop_map(Some), Just(Some(-1))].prop_map(|sides| CliShape::Polygon { sides }),
        2 => Just(CliShape::Circle),
        3 => (
            prop_oneof![Just(None), (0.0..2.5f64).prop_map(Some), Just(Some(0.))],
            prop_oneof![Just(None), (0.0..180.0f64).prop_map(Some)],
            prop_oneof![Just(None), (0.05..1.5f64).prop_map(Some), Just(Some(3.0))]
        )
            .prop_map(|(distance, angle, radius)| CliShape::Trimer { distance, angle, radius }),
    ]
    .boxed()
}

fn cli_strat(_: &Ctx) -> BoxedStrategy<CliCase> {
    (
        prop_oneof![8 => select(vec!["p1", "p2", "p1m1", "p1g1", "p2mm", "p2mg", "p2gg"]).prop_map(|s| s.to_string()), 1 => select(vec!["p3", "P1", "pm", "", "p4mm"]).prop_map(|s| s.to_string())],
        cli_shape(),
        prop_oneof![3 => Just(None), 2 => Just(Some("Hard".to_string())), 3 => Just(Some("LJ".to_string())), 1 => Just(Some("Soft".to_string())), 1 => Just(Some("lj".to_string()))],
        prop_oneof![Just(None), (0i64..=3).prop_map(Some)],
        prop_oneof![Just(None), Just(Some(0i64)), Just(Some(1)), Just(Some(7)), Just(Some(100)), Just(Some(-5))],
        prop_oneof![Just(None), Just(Some(0i64)), Just(Some(1)), Just(Some(3)), Just(Some(1000))],
        prop_oneof![Just(None), Just(Some(0.)), Just(Some(0.5))],
        prop_oneof![Just(None), Just(Some(0.001)), Just(Some(0.))],
        prop_oneof![Just(None), Just(Some(0.1))],
        (prop_oneof![Just(None), Just(Some(0.)), Just(Some(0.05)), Just(Some(1.0))], prop_oneof![Just(None), Just(Some(1e-6)), Just(Some(1e9))], prop_oneof![9 => Just(false), 1 => Just(true)], prop_oneof![9 => Just(false), 1 => Just(true)]),
    )
        .prop_map(|(group, shape, potential, replications, steps, inner_steps, kt_start, kt_finish, kt_ratio, (max_step_size, convergence, bad_outdir, block_svg))| {
            // keep the default 100 replications out of the grammar: always pass a count unless testing the parser
            let replications = replications.or(Some(2));
            // the remaining rarely used options are derived from the seed-like step value so that the tuple stays small
            let verbosity = match (steps.unwrap_or(3) + replications.unwrap_or(0)) % 5 { 0 => 1, 1 => 3, _ => 0 } as u8;
            let start_config = if inner_steps == Some(3) { Some("/nonexistent/start.json".to_string()) } else if inner_steps == Some(1) { Some("/dev/null".to_string()) } else { None };
            CliCase { args: CliArgs { group, shape, potential, replications, steps, inner_steps, kt_start, kt_finish, kt_ratio, max_step_size, convergence, verbosity, start_config }, bad_outdir, block_svg }
        })
        .boxed()
}

fn valid_args(a: &CliArgs) -> bool {
    let group_ok = ["p1", "p2", "p1m1", "p1g1", "p2mm", "p2mg", "p2gg"].contains(&a.group.as_str());
    let pot_ok = matches!(a.potential.as_deref(), None | Some("Hard") | Some("LJ") | Some("lj") | Some("hard"));
    let shape_ok = match &a.shape {
        CliShape::Polygon { sides } => sides.map(|s| s >= 3).unwrap_or(true) && !matches!(a.potential.as_deref(), Some("LJ") | Some("lj")),
        _ => true,
    };
    group_ok && pot_ok && shape_ok && a.replications.map(|r| r > 0).unwrap_or(true) && a.steps.map(|s| s >= 0).unwrap_or(true)
}

fn cli_oracle(c: &CliCase, rec: &Rec, ctx: &Ctx) -> Result<(), String> {
    let dir = cli::scratch_dir(ctx);
    let outfile = if c.bad_outdir { dir.join("no-such-dir").join("out") } else { dir.join("out") };
    if c.block_svg && !c.bad_outdir {
        let _ = std::fs::create_dir_all(outfile.with_extension("svg"));
    }
    let argv = c.args.to_argv(&outfile);
    let r = cli::run(ctx, &argv, &outfile, Some(2), 120);
    let _ = std::fs::remove_dir_all(&dir);
    let out = r?;
    rec.eval(1);
    if out.timed_out {
        rec.class("cli/timeout-inconclusive");
        crate::mark_broken();
        eprintln!("HARNESS-NOTE: CLI run exceeded 120 s: {:?}", argv);
        return Ok(());
    }
    let shown = argv.join(" ");
    if out.panicked() {
        return Err(format!("`packing {}` ended with a panic (exit status {:?}): {}", shown, out.status, out.stderr.lines().filter(|l| l.contains("panicked") || l.contains("attempt")).take(2).collect::<Vec<_>>().join(" | ")));
    }
    match out.status {
        Some(0) => {
            let json = out.json.as_ref().ok_or_else(|| format!("`packing {}` exited 0 without writing the .json file", shown))?;
            let svg = out.svg.as_ref().ok_or_else(|| format!("`packing {}` exited 0 without writing the .svg file", shown))?;
            if serde_json::from_str::<serde_json::Value>(json).is_err() {
                return Err(format!("`packing {}` exited 0 but the .json file does not parse", shown));
            }
            if !svg.contains("<svg") {
                return Err(format!("`packing {}` exited 0 but the .svg file holds no <svg> element", shown));
            }
        }
        Some(code) => {
            if out.stderr.trim().is_empty() {
                return Err(format!("`packing {}` exited {} without an error message", shown, code));
            }
        }
        None => return Err(format!("`packing {}` was killed by a signal", shown)),
    }
    let valid = valid_args(&c.args) && !c.bad_outdir && !c.block_svg;
    let zero = c.args.steps == Some(0) || c.args.inner_steps == Some(0) || c.args.replications == Some(0);
    let class = format!("cli/{}{}/exit{}", if valid { "valid" } else { "invalid" }, if zero { "/zero-work" } else { "" }, out.status.unwrap_or(-1));
    rec.class(&class);
    if !valid || zero {
        rec.nontrivial(hash_json(&serde_json::to_value(c).unwrap()));
    }
    if rec.wants_sample(&class) {
        rec.sample(&class, || serde_json::json!({"argv": shown, "exit": out.status}));
    }
    Ok(())
}

/// complete enumeration of the small configurations: steps 0..=16 x inner_steps 0..=2*steps+1 (and 1000) x kT {0, 0.5} x
/// convergence {None, a threshold every loop meets}
fn small_scope(ctx: &Ctx, ev: &mut crate::evidence::Evidence) {
    let land = Landscape { centre: vec![1.0, -2.0, 0.5], weights: vec![1.0, 0.5, 2.0], ripple: (0.1, 7.0), quantum: 0., invalid: None };
    let mut m = crate::engine::Merged::default();
    let mut failure: Option<(WorkCase, String)> = None;
    'outer: for steps in 0u64..=16 {
        let mut inners: Vec<u64> = (0..=(2 * steps + 1)).collect();
        inners.push(1000);
        for inner in inners {
            for kt in [0.0f64, 0.5].iter() {
                for conv in [None, Some(1e9)].iter() {
                    let cfg = OptCfg { steps, inner, kt_start: *kt, kt_finish: None, kt_ratio: None, max_step: 1e-7, convergence: *conv, seed: steps * 1000 + inner };
                    let c = WorkCase { cfg: cfg.clone(), n: 3, land: land.clone(), init: vec![0.3, -0.7, 1.1], fixed: None };
                    let out = run(&c, &cfg);
                    m.evals += out.calls_during_run as u64;
                    m.cases += 1;
                    m.nontrivial_total += 1;
                    m.nontrivial.insert(steps * 100_000 + inner * 10 + if *kt > 0. { 1 } else { 0 } + if conv.is_some() { 2 } else { 0 });
                    let mut res = check_amount(&out, &cfg, "small configuration", true);
                    if res.is_ok() {
                        if let Some((p, _)) = count_work(&out) {
                            // with a threshold every loop meets, the run ends exactly after six whole loops, or runs to the end
                            let inner_eff = cfg.inner_eff();
                            let full = cfg.proposals();
                            // without a threshold: exactly the full amount; with one: the full amount, or a whole number
                            // of inner loops that is at least six (the statement gives "more than five" as a necessary
                            // condition for stopping, not the exact loop at which to stop)
                            let ok = p == full || (conv.is_some() && inner_eff > 0 && p % inner_eff == 0 && p / inner_eff >= 6 && p <= full);
                            if !ok {
                                res = Err(format!("small configuration: {} proposals evaluated for steps = {}, inner_steps = {}, convergence = {:?} (full amount {})", p, steps, inner, conv, full));
                            }
                        }
                    }
                    if let Err(msg) = res {
                        failure = Some((c, msg));
                        break 'outer;
                    }
                }
            }
        }
    }
    *m.classes.entry("configurations".to_string()).or_insert(0) += m.cases;
    m.samples.entry("small-scope".to_string()).or_insert_with(Vec::new).push(serde_json::json!({"steps": "0..=16", "inner_steps": "0..=2*steps+1 and 1000", "kT": [0.0, 0.5], "convergence": ["None", 1e9], "configurations": m.cases}));
    ev.absorb_part("small-scope", &m);
    if let Some((c, msg)) = failure {
        crate::engine::fail_case(ctx, ev, "work", serde_json::to_value(&c).unwrap(), format!("(small-scope enumeration) {}", msg));
    }
}

/// part real-chains: the chains of 1..4 stages that C08 generates (every group, hard polygons / discs and Lennard-Jones,
/// from_group and rescaled starts, step sizes 1e-3..8), run plainly; only "returns without panicking" is judged here
fn real_chain_oracle(c: &crate::props::c08::ChainCase, rec: &Rec, _: &Ctx) -> Result<(), String> {
    match crate::props::c08::run_chain_plain(c)? {
        None => rec.class("skipped-start-without-finite-score"),
        Some(done) => {
            rec.eval(c.stages.iter().take(done).map(|s| s.steps).sum::<u64>());
            let class = format!("{:?}/stages{}", c.kind, done);
            rec.class(&class);
            if done >= 2 {
                rec.nontrivial(hash_json(&serde_json::to_value(c).unwrap()));
            }
            if rec.wants_sample(&class) {
                rec.sample(&class, || serde_json::to_value(c).unwrap());
            }
        }
    }
    Ok(())
}

pub fn parts() -> Vec<PartDef> {
    vec![
        part("work", 80_000, 1_600_000, work_strat, work_oracle),
        crate::engine::custom_part("small-scope", small_scope, |_, _, _| Err("findings of the enumeration are replayed through the work part".to_string())),
        part("cli", 640, 12_000, cli_strat, cli_oracle),
        part("real-chains", 6_000, 200_000, crate::props::c08::chain_strat_for_c20, real_chain_oracle),
    ]
}

//! C16 — the built-in tables are the seven named wallpaper groups (exhaustive over the finite tables).

use std::str::FromStr;

use nalgebra::{Matrix3, Point2};
use packing::wallpaper::{get_wallpaper_group, WallpaperGroups, WyckoffSite};
use packing::CrystalFamily;
use proptest::prelude::*;
use serde::{Deserialize, Serialize};
use serde_json::json;

use crate::engine::{custom_part, fail_case, hash_f64s, part, Ctx, Merged, PartDef, Rec};
use crate::evidence::Evidence;
use crate::geom::{self, circ_dist, Aff, Family, Lattice, Lin, P};

pub const TITLE: &str = "The built-in tables are the seven named wallpaper groups";
pub const RULE: &str = "part tables (exhaustive): for each of the 7 names (looked up the way the CLI does, by FromStr) every parsed operation and every ordered pair of operations: set equality with the ITA general positions modulo integer translations, identity present, closure and inverses modulo the lattice, order, counts of {identity, 2-fold, mirror, glide by 1/2 along the axis} per axis, crystal family, and orthogonality of M W M^-1 on generic cells of that family. One evaluation = one (group, operation) or (group, operation pair) obligation; all are non-trivial except those of p1. part action (generated): random points are mapped by the parsed operation and by the harness's table entry (1e-12). Non-trivial = group of order >= 2.";

pub fn assumptions() -> Vec<&'static str> {
    vec!["the reference is the harness's transcription of International Tables vol. A plane groups 1,2,3,4,6,7,8 (standard setting)"]
}

fn parsed_ops(name: &str) -> Result<(Vec<Aff>, CrystalFamily, Vec<[f64; 3]>), String> {
    let which = WallpaperGroups::from_str(name).map_err(|e| format!("group name {} is not accepted: {}", name, e))?;
    let wg = get_wallpaper_group(which).map_err(|e| e.to_string())?;
    let site = WyckoffSite::new(&wg).map_err(|e| format!("{}: operations do not parse: {}", name, e))?;
    let mut ops = vec![];
    let mut bottoms = vec![];
    for t in site.symmetries.iter() {
        let m: Matrix3<f64> = (*t).into();
        ops.push(Aff { l: Lin { a: m[(0, 0)], b: m[(0, 1)], c: m[(1, 0)], d: m[(1, 1)] }, t: P::new(m[(0, 2)], m[(1, 2)]) });
        bottoms.push([m[(2, 0)], m[(2, 1)], m[(2, 2)]]);
    }
    Ok((ops, wg.family, bottoms))
}

fn same_mod_lattice(a: &Aff, b: &Aff) -> bool {
    a.l.max_abs_diff(b.l) <= 1e-12 && circ_dist(a.t.x, b.t.x) <= 1e-12 && circ_dist(a.t.y, b.t.y) <= 1e-12
}

#[derive(Debug, PartialEq, Clone, Copy)]
enum Kind {
    Identity,
    TwoFold,
    MirrorX, // (x,y)->(-x,y): mirror/glide line perpendicular to x (axis along y)
    MirrorY,
    GlideX, // (-x, y+1/2)
    GlideY,
    Other,
}

fn kind(o: &Aff) -> Kind {
    let l = o.l;
    let is = |a: f64, b: f64, c: f64, d: f64| l.max_abs_diff(Lin { a, b, c, d }) < 1e-12;
    if is(1., 0., 0., 1.) {
        if circ_dist(o.t.x, 0.) < 1e-12 && circ_dist(o.t.y, 0.) < 1e-12 {
            Kind::Identity
        } else {
            Kind::Other
        }
    } else if is(-1., 0., 0., -1.) {
        Kind::TwoFold
    } else if is(-1., 0., 0., 1.) {
        // translation component along the axis (y) decides mirror vs glide
        if circ_dist(o.t.y, 0.) < 1e-12 {
            Kind::MirrorX
        } else if circ_dist(o.t.y, 0.5) < 1e-12 {
            Kind::GlideX
        } else {
            Kind::Other
        }
    } else if is(1., 0., 0., -1.) {
        if circ_dist(o.t.x, 0.) < 1e-12 {
            Kind::MirrorY
        } else if circ_dist(o.t.x, 0.5) < 1e-12 {
            Kind::GlideY
        } else {
            Kind::Other
        }
    } else {
        Kind::Other
    }
}

fn count(ops: &[Aff], k: Kind) -> usize {
    ops.iter().filter(|o| kind(o) == k).count()
}

fn check_group(gi: usize, evals: &mut u64) -> Result<(), String> {
    let reference = geom::group(gi);
    let name = reference.name;
    let (ops, family, bottoms) = parsed_ops(name)?;
    // order
    *evals += 1;
    if ops.len() != reference.ops.len() {
        return Err(format!("{}: {} operations listed, the group has order {}", name, ops.len(), reference.ops.len()));
    }
    // set equality, each exactly once
    for (i, o) in ops.iter().enumerate() {
        *evals += 1;
        let n_ref = reference.ops.iter().filter(|r| same_mod_lattice(r, o)).count();
        if n_ref != 1 {
            return Err(format!("{}: listed operation #{} {:?} is not a general position of the group (ITA)", name, i, o));
        }
        let n_own = ops.iter().filter(|r| same_mod_lattice(r, o)).count();
        if n_own != 1 {
            return Err(format!("{}: operation #{} {:?} is listed {} times", name, i, o, n_own));
        }
        // nothing in the third row that changes the action on points
        let b = bottoms[i];
        if b[0] != 0. || b[1] != 0. || !(b[2] == 0. || b[2] == 1.) {
            return Err(format!("{}: operation #{} has a projective bottom row {:?}", name, i, b));
        }
    }
    for r in reference.ops.iter() {
        *evals += 1;
        if !ops.iter().any(|o| same_mod_lattice(r, o)) {
            return Err(format!("{}: general position {:?} of the group is missing from the table", name, r));
        }
    }
    // identity, closure, inverses
    *evals += 1;
    if count(&ops, Kind::Identity) != 1 {
        return Err(format!("{}: the identity is not listed exactly once", name));
    }
    for a in ops.iter() {
        let mut has_inverse = false;
        for b in ops.iter() {
            *evals += 1;
            let c = a.mul(*b);
            if !ops.iter().any(|o| same_mod_lattice(o, &c)) {
                return Err(format!("{}: not closed: {:?} o {:?} = {:?} is not listed (mod lattice)", name, a, b, c));
            }
            if kind(&c) == Kind::Identity {
                has_inverse = true;
            }
        }
        if !has_inverse {
            return Err(format!("{}: {:?} has no inverse in the table", name, a));
        }
    }
    // symmetry content named by the Hermann-Mauguin symbol
    let expect: (usize, usize, usize, usize, usize) = match name {
        // (two-fold, mirror ⟂x, mirror ⟂y, glide ⟂x, glide ⟂y)
        "p1" => (0, 0, 0, 0, 0),
        "p2" => (1, 0, 0, 0, 0),
        "p1m1" => (0, 1, 0, 0, 0),
        "p1g1" => (0, 0, 0, 1, 0),
        "p2mm" => (1, 1, 1, 0, 0),
        // p2mg: mirror perpendicular to x at x=1/4 : (-x+1/2, y); glide perpendicular to y: (x+1/2, -y)
        "p2mg" => (1, 1, 0, 0, 1),
        "p2gg" => (1, 0, 0, 1, 1),
        _ => unreachable!(),
    };
    *evals += 1;
    // a mirror (-x+1/2, y) has no translation along its axis: Kind::MirrorX regardless of t.x
    let got = (count(&ops, Kind::TwoFold), count(&ops, Kind::MirrorX), count(&ops, Kind::MirrorY), count(&ops, Kind::GlideX), count(&ops, Kind::GlideY));
    if got != expect {
        return Err(format!("{}: symmetry content (2-fold, mirror⟂x, mirror⟂y, glide⟂x, glide⟂y) = {:?}, the symbol requires {:?}", name, got, expect));
    }
    if count(&ops, Kind::Other) != 0 {
        return Err(format!("{}: an operation is neither identity, 2-fold, axial mirror nor half-glide", name));
    }
    // family
    *evals += 1;
    let want_family = match reference.family {
        Family::Oblique => CrystalFamily::Monoclinic,
        Family::Rectangular => CrystalFamily::Orthorhombic,
    };
    if family != want_family {
        return Err(format!("{}: paired with crystal family {:?}, the group's cells are {:?}", name, family, want_family));
    }
    // every operation is a rigid motion of generic cells of that family
    let cells: Vec<Lattice> = match family {
        CrystalFamily::Monoclinic => vec![Lattice::from_params(1.3, 0.71, 1.1), Lattice::from_params(2.0, 0.35, 0.6)],
        _ => vec![Lattice::from_params(1.3, 0.71, std::f64::consts::FRAC_PI_2), Lattice::from_params(2.0, 0.35, std::f64::consts::FRAC_PI_2)],
    };
    for lat in cells.iter() {
        let m = lat.m();
        for o in ops.iter() {
            *evals += 1;
            let cart = m.mul(o.l).mul(m.inv());
            if cart.orthogonality_defect() > 1e-9 {
                return Err(format!("{}: operation {:?} is not a rigid motion of a generic {:?} cell (a={}, b={}, angle={})", name, o, family, lat.a, lat.b, lat.theta));
            }
        }
    }
    Ok(())
}

#[derive(Clone, Debug, Serialize, Deserialize)]
pub struct ActionCase {
    pub group: usize,
    pub op: u16,
    pub x: f64,
    pub y: f64,
}

fn action_strat(_: &Ctx) -> BoxedStrategy<ActionCase> {
    (0usize..7, any::<u16>(), -3.0..3.0f64, -3.0..3.0f64).prop_map(|(group, op, x, y)| ActionCase { group, op, x, y }).boxed()
}

fn action_oracle(c: &ActionCase, rec: &Rec, _: &Ctx) -> Result<(), String> {
    let reference = geom::group(c.group);
    let which = WallpaperGroups::from_str(reference.name).map_err(|e| e.to_string())?;
    let wg = get_wallpaper_group(which).map_err(|e| e.to_string())?;
    let site = WyckoffSite::new(&wg).map_err(|e| e.to_string())?;
    if site.symmetries.is_empty() {
        return Err(format!("{}: no operations", reference.name));
    }
    let k = crate::engine::idx(c.op, site.symmetries.len());
    let t = site.symmetries[k];
    let q = t * Point2::new(c.x, c.y);
    rec.eval(1);
    // the image must be what some operation of the reference gives, and the same operation for every point:
    // compare with the reference operation that has the same linear part and translation mod lattice
    let m: Matrix3<f64> = t.into();
    let parsed = Aff { l: Lin { a: m[(0, 0)], b: m[(0, 1)], c: m[(1, 0)], d: m[(1, 1)] }, t: P::new(m[(0, 2)], m[(1, 2)]) };
    let r = reference.ops.iter().find(|r| same_mod_lattice(r, &parsed)).ok_or_else(|| format!("{}: operation #{} is not in the ITA table", reference.name, k))?;
    let want = r.apply(P::new(c.x, c.y));
    if circ_dist(want.x, q.x) > 1e-12 || circ_dist(want.y, q.y) > 1e-12 || !q.x.is_finite() || !q.y.is_finite() {
        return Err(format!("{}: operation #{} maps ({}, {}) to ({}, {}), the group operation gives ({}, {}) (mod lattice)", reference.name, k, c.x, c.y, q.x, q.y, want.x, want.y));
    }
    let class = reference.name.to_string();
    rec.class(&class);
    if reference.ops.len() >= 2 {
        rec.nontrivial(hash_f64s(&[c.group as f64, k as f64, c.x, c.y]));
    }
    if rec.wants_sample(&class) {
        rec.sample(&class, || serde_json::to_value(c).unwrap());
    }
    Ok(())
}

// ------------------------------------------------------------------------------------------------
// histories: reads of the built-in tables interleaved, on one thread, with user-built groups (all fields of WallpaperGroup
// are public) that reuse a built-in name with a listing derived from a table; every read must give its own listing

#[derive(Clone, Debug, Serialize, Deserialize)]
pub enum HistOp {
    Builtin(usize),
    /// (name of built-in group `name` or "custom" when None, listing of built-in `base` changed by `change` with index i, j)
    Custom { name: Option<usize>, base: usize, change: u8, i: u16, j: u16 },
}

#[derive(Clone, Debug, Serialize, Deserialize)]
pub struct HistCase {
    pub ops: Vec<HistOp>,
}

fn hist_strat(_: &Ctx) -> BoxedStrategy<HistCase> {
    let op = prop_oneof![
        2 => (0usize..7).prop_map(HistOp::Builtin),
        3 => (prop_oneof![4 => (0usize..7).prop_map(Some), 1 => Just(None)], 0usize..7, 0u8..6, any::<u16>(), any::<u16>()).prop_map(|(name, base, change, i, j)| HistOp::Custom { name, base, change, i, j }),
    ];
    proptest::collection::vec(op, 2..8).prop_map(|ops| HistCase { ops }).boxed()
}

fn hist_oracle(c: &HistCase, rec: &Rec, _: &Ctx) -> Result<(), String> {
    let mut polluted_reads = 0usize;
    let mut customs_with_builtin_name = vec![false; 7];
    for (step, op) in c.ops.iter().enumerate() {
        match op {
            HistOp::Builtin(g) => {
                let mut evals = 0u64;
                check_group(*g, &mut evals).map_err(|e| format!("step {} (built-in {} read after {} earlier steps of {:?}): {}", step, geom::GROUP_NAMES[*g], step, c.ops, e))?;
                rec.eval(evals);
                if customs_with_builtin_name[*g] {
                    polluted_reads += 1;
                }
            }
            HistOp::Custom { name, base, change, i, j } => {
                let which = WallpaperGroups::from_str(geom::GROUP_NAMES[*base]).map_err(|e| e.to_string())?;
                let table = get_wallpaper_group(which).map_err(|e| e.to_string())?;
                let mut listing: Vec<String> = table.wyckoff_str.iter().map(|s| s.to_string()).collect();
                let n = listing.len();
                match change {
                    0 => listing.truncate(1 + crate::engine::idx(*i, n)),
                    1 => {
                        if n > 1 {
                            listing.remove(crate::engine::idx(*i, n));
                        }
                    }
                    2 => listing.swap(crate::engine::idx(*i, n), crate::engine::idx(*j, n)),
                    3 => {
                        let other = get_wallpaper_group(WallpaperGroups::from_str(geom::GROUP_NAMES[crate::engine::idx(*i, 7)]).map_err(|e| e.to_string())?).map_err(|e| e.to_string())?;
                        listing.push(other.wyckoff_str[crate::engine::idx(*j, other.wyckoff_str.len())].to_string());
                    }
                    4 => {
                        let k = crate::engine::idx(*i, n);
                        listing[k] = ["y,x", "-y,-x", "x+1/2,y+1/2", "-x+1/2,-y", "x,y+1/2", "y,-x"][crate::engine::idx(*j, 6)].to_string();
                    }
                    _ => {}
                }
                let name_str: String = match name {
                    Some(g) => {
                        customs_with_builtin_name[*g] = true;
                        geom::GROUP_NAMES[*g].to_string()
                    }
                    None => "custom".to_string(),
                };
                let wg = crate::statejson::custom_wallpaper_group(&name_str, table.family, listing.iter().map(|s| s.as_str()).collect());
                let site = WyckoffSite::new(&wg).map_err(|e| format!("step {}: listing {:?} does not parse: {}", step, listing, e))?;
                rec.eval(1);
                if site.symmetries.len() != listing.len() {
                    return Err(format!("step {}: a group named {:?} with the {} operations {:?} yields a site of {} operations (history {:?})", step, name_str, listing.len(), listing, site.symmetries.len(), c.ops));
                }
                for (k, (t, text)) in site.symmetries.iter().zip(listing.iter()).enumerate() {
                    let alone = packing::Transform2::from_operations(text).map_err(|e| e.to_string())?;
                    let (m1, m2): (Matrix3<f64>, Matrix3<f64>) = ((*t).into(), alone.into());
                    if m1 != m2 {
                        return Err(format!("step {}: operation {} of the group named {:?} with listing {:?} is {:?}, but {:?} alone parses to {:?} (history {:?})", step, k, name_str, listing, m1, text, m2, c.ops));
                    }
                }
            }
        }
    }
    let class = format!("history/{}", if polluted_reads > 0 { "built-in-read-after-same-name-custom" } else { "other" });
    rec.class(&class);
    if polluted_reads > 0 {
        rec.nontrivial(crate::engine::hash_json(&serde_json::to_value(c).unwrap()));
    }
    if rec.wants_sample(&class) {
        rec.sample(&class, || serde_json::to_value(c).unwrap());
    }
    Ok(())
}

pub fn parts() -> Vec<PartDef> {
    vec![
        custom_part(
            "tables",
            |ctx: &Ctx, ev: &mut Evidence| {
                let mut m = Merged::default();
                for gi in 0..7 {
                    let mut evals = 0u64;
                    let res = check_group(gi, &mut evals);
                    m.evals += evals;
                    m.cases += 1;
                    let name = geom::GROUP_NAMES[gi];
                    *m.classes.entry(name.to_string()).or_insert(0) += evals;
                    if gi > 0 {
                        m.nontrivial_total += 1;
                        m.nontrivial.insert(gi as u64);
                    }
                    m.samples.entry(name.to_string()).or_insert_with(Vec::new).push(json!({"group": name, "obligations": evals, "parsed": parsed_ops(name).map(|(o, f, _)| json!({"family": format!("{:?}", f), "ops": o.iter().map(|a| vec![a.l.a, a.l.b, a.t.x, a.l.c, a.l.d, a.t.y]).collect::<Vec<_>>() })).unwrap_or(json!(null))}));
                    if let Err(msg) = res {
                        ev.absorb_part("tables", &m);
                        m = Merged::default();
                        fail_case(ctx, ev, "tables", json!({"group": gi}), msg);
                    }
                }
                ev.absorb_part("tables", &m);
                ev.exhaustive = Some(true);
            },
            |v, _rec, _ctx| {
                let gi = v["group"].as_u64().ok_or("replay case lacks group")? as usize;
                let mut evals = 0;
                check_group(gi, &mut evals)
            },
        ),
        part("action", 1_000_000, 20_000_000, action_strat, action_oracle),
        part("histories", 200_000, 4_000_000, hist_strat, hist_oracle),
    ]
}

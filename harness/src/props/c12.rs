//! C12 — the pairwise overlap test agrees with exact geometry.

use std::f64::consts::PI;

use nalgebra::Matrix3;
use packing::traits::{Intersect, Shape};
use packing::Transform2;
use proptest::prelude::*;
use serde::{Deserialize, Serialize};

use crate::engine::{hash_f64s, idx, part, Ctx, PartDef, Rec};
use crate::gen::{line_shape_spec, mol_shape_spec};
use crate::geom::{self, Aff, Lin, OShape, P};
use crate::statejson::{line_shape, mol_shape, oshape_of_line, oshape_of_mol, ShapeSpec};

pub const TITLE: &str = "The pairwise overlap test agrees with exact geometry";
pub const RULE: &str = "cases = (shape: regular n-gon 3..12, convex radial polygon, circle, trimer) x two placements from eight families: generic (any rotation, optional reflection, any translation up to 2.5 R); same orientation shifted exactly along an edge direction; orientation differing by a symmetry rotation; vertex placed on a vertex; vertex placed on an edge; coincident copies; mirror images sharing an axis; near-touching (distance along a direction bisected to a signed gap of +-[1e-12,1e-6]); for disc shapes the analogous tangent placements. Each case is judged as given, with the arguments swapped, and after a common rigid motion or reflection. Oracle: signed separating-axis gap of the convex polygons (disc centre distance minus radii): gap < -1e-9 requires yes, gap > 1e-9 requires no, in between anything is accepted. Non-trivial = |gap| < 0.05 or a constructed (non-generic) family; distinct by hash of the case numbers.";

pub fn assumptions() -> Vec<&'static str> {
    vec![
        "polygons are convex (checked per case; others are skipped and counted)",
        "the separating-axis gap over edge normals is a lower bound of the true distance of separated polygons, so a 'must answer no' verdict is never wrong; penetration depth is exact for convex polygons",
        "the shapes judged are the ones the package built (its public items); C02/C10 compare the constructors with their documentation",
    ]
}

#[derive(Clone, Debug, Serialize, Deserialize)]
pub struct PairCase {
    pub shape: ShapeSpec,
    pub family: u8,
    pub phi1: f64,
    pub phi2: f64,
    pub mirror1: bool,
    pub mirror2: bool,
    pub dir: f64,
    pub dist: f64,
    pub i: u16,
    pub j: u16,
    pub s: f64,
    pub tpar: f64,
    pub gap_exp: f64,
    pub gap_neg: bool,
    pub turns: u16,
    pub along_axis: bool,
    pub common: (f64, f64, f64, bool),
    /// families 8, 9: a small signed turn about the contact vertex and a small signed lateral offset (fraction of the
    /// enclosing radius) applied on top of an aligned configuration
    #[serde(default)]
    pub tilt: f64,
    #[serde(default)]
    pub lateral: f64,
}

fn angle() -> BoxedStrategy<f64> {
    prop_oneof![6 => 0.0..(2. * PI), 1 => Just(0.), 1 => Just(PI), 1 => Just(PI / 2.)].boxed()
}

fn strat_for(shape: BoxedStrategy<ShapeSpec>) -> BoxedStrategy<PairCase> {
    (
        (shape, 0u8..10, angle(), angle(), any::<bool>(), any::<bool>()),
        (0.0..(2. * PI), 0.0..2.5f64, any::<u16>(), any::<u16>(), -2.2..2.2f64, prop_oneof![4 => 0.0..1.0f64, 1 => Just(0.5), 1 => Just(0.), 1 => Just(1.)]),
        (-12.0..-6.0f64, any::<bool>(), any::<u16>(), any::<bool>(), (0.0..(2. * PI), -50.0..50.0f64, -50.0..50.0f64, any::<bool>()), small_signed(-13., -1.), small_signed(-16., -6.)),
    )
        .prop_map(|((shape, family, phi1, phi2, mirror1, mirror2), (dir, dist, i, j, s, tpar), (gap_exp, gap_neg, turns, along_axis, common, tilt, lateral))| PairCase {
            shape,
            family,
            phi1,
            phi2,
            mirror1,
            mirror2,
            dir,
            dist,
            i,
            j,
            s,
            tpar,
            gap_exp,
            gap_neg,
            turns,
            along_axis,
            common,
            tilt,
            lateral,
        })
        .boxed()
}

/// 0, or +-10^U(lo, hi)
fn small_signed(lo: f64, hi: f64) -> BoxedStrategy<f64> {
    prop_oneof![1 => Just(0.0f64), 6 => (lo..hi, any::<bool>()).prop_map(|(e, neg)| if neg { -(10f64.powf(e)) } else { 10f64.powf(e) })].boxed()
}

fn lin_of(phi: f64, mirror: bool) -> Lin {
    let r = Lin::rot(phi);
    if mirror {
        // reflect x -> -x first, then rotate
        r.mul(Lin { a: -1., b: 0., c: 0., d: 1. })
    } else {
        r
    }
}

pub fn to_transform(a: &Aff) -> Transform2 {
    Transform2::from(Matrix3::new(a.l.a, a.l.b, a.t.x, a.l.c, a.l.d, a.t.y, 0., 0., 1.))
}

/// the two placements of the case (pure function of the case)
fn placements(c: &PairCase, os: &OShape) -> (Aff, Aff, &'static str) {
    let r = os.enclosing_radius();
    let zero = P::new(0., 0.);
    let a = Aff { l: lin_of(c.phi1, c.mirror1), t: zero };
    let generic_t = P::new(c.dir.cos(), c.dir.sin()).scale(c.dist * r);
    match (c.family, os) {
        (0, _) => (a, Aff { l: lin_of(c.phi2, c.mirror2), t: generic_t }, "generic"),
        (5, _) => (a, a, "coincident"),
        (6, _) => {
            // mirror image of A about the y axis, slid along that axis (or across it)
            let l = Lin { a: -1., b: 0., c: 0., d: 1. }.mul(a.l);
            let t = if c.along_axis { P::new(0., c.s * r) } else { P::new(c.s * r, 0.) };
            (a, Aff { l, t }, "mirror-shared-axis")
        }
        (7, _) => {
            // near touching: bisect the distance along `dir` to the requested signed gap
            let l = lin_of(c.phi2, c.mirror2);
            let u = P::new(c.dir.cos(), c.dir.sin());
            let target = if c.gap_neg { -(10f64.powf(c.gap_exp)) } else { 10f64.powf(c.gap_exp) };
            let sa = os.transform(&a);
            let g = |d: f64| sa.gap(&os.transform(&Aff { l, t: u.scale(d) })) - target;
            let mut lo = 0.;
            let mut hi = 2. * r + 1.;
            if g(lo) > 0. {
                // already separated at distance 0 (cannot happen for shapes containing the origin); fall back
                return (a, Aff { l, t: generic_t }, "generic");
            }
            for _ in 0..200 {
                let mid = 0.5 * (lo + hi);
                if g(mid) > 0. {
                    hi = mid;
                } else {
                    lo = mid;
                }
            }
            (a, Aff { l, t: u.scale(if c.gap_neg { lo } else { hi }) }, "near-touching")
        }
        (f, OShape::Poly(v)) => {
            let n = v.len();
            let va: Vec<P> = v.iter().map(|p| a.apply(*p)).collect();
            let i = idx(c.i, n);
            let j = idx(c.j, n);
            match f {
                8 => {
                    // corner to corner with a side of B on the continuation of a side of A beyond the corner: B is turned so
                    // that its side leaves the corner along the direction of A's side, then turned about the corner by
                    // `tilt`, moved along the line by the gap and off the line by `lateral`
                    let prev = va[(i + n - 1) % n];
                    let e = va[i].sub(prev);
                    let len = (e.x * e.x + e.y * e.y).sqrt();
                    let d = P::new(e.x / len, e.y / len);
                    let nrm = P::new(-d.y, d.x);
                    let base = lin_of(0., c.mirror2);
                    let jn = if c.along_axis { (j + 1) % n } else { (j + n - 1) % n };
                    let eb = base.apply(v[jn]).sub(base.apply(v[j]));
                    let theta = d.y.atan2(d.x) - eb.y.atan2(eb.x) + c.tilt;
                    let l = Lin::rot(theta).mul(base);
                    let vb = l.apply(v[j]);
                    let g = if c.gap_neg { -(10f64.powf(c.gap_exp)) } else { 10f64.powf(c.gap_exp) } * r;
                    let corner = va[i].add(d.scale(g)).add(nrm.scale(c.lateral * r));
                    (a, Aff { l, t: corner.sub(vb) }, "collinear-continuation")
                }
                9 => {
                    // an aligned configuration (vertex on vertex / vertex on edge, same or symmetry-related orientation)
                    // turned about the contact point by `tilt` and moved by the gap in the direction `dir`
                    let k = idx(c.turns, n);
                    let l0 = if c.along_axis { Lin::rot(2. * PI * k as f64 / n as f64).mul(a.l) } else { lin_of(c.phi2, c.mirror2) };
                    let l = Lin::rot(c.tilt).mul(l0);
                    let vb = l.apply(v[j]);
                    let contact = va[i].add(va[(i + 1) % n].sub(va[i]).scale(c.tpar));
                    let g = if c.gap_neg { -(10f64.powf(c.gap_exp)) } else { 10f64.powf(c.gap_exp) } * r;
                    let moved = contact.add(P::new(c.dir.cos(), c.dir.sin()).scale(g));
                    (a, Aff { l, t: moved.sub(vb) }, "aligned-then-perturbed")
                }
                1 => {
                    let e = va[(i + 1) % n].sub(va[i]);
                    (a, Aff { l: a.l, t: e.scale(c.s) }, "same-orientation-along-edge")
                }
                2 => {
                    let k = idx(c.turns, n);
                    let l = Lin::rot(2. * PI * k as f64 / n as f64).mul(a.l);
                    let e = va[(i + 1) % n].sub(va[i]);
                    let t = if c.along_axis { e.scale(c.s) } else { generic_t };
                    (a, Aff { l, t }, "symmetry-rotated")
                }
                3 => {
                    let l = lin_of(c.phi2, c.mirror2);
                    let vb = l.apply(v[j]);
                    (a, Aff { l, t: va[i].sub(vb) }, "vertex-on-vertex")
                }
                _ => {
                    let l = lin_of(c.phi2, c.mirror2);
                    let vb = l.apply(v[j]);
                    let on_edge = va[i].add(va[(i + 1) % n].sub(va[i]).scale(c.tpar));
                    (a, Aff { l, t: on_edge.sub(vb) }, "vertex-on-edge")
                }
            }
        }
        (f, OShape::Discs(d)) => {
            let n = d.len();
            let i = idx(c.i, n);
            let j = idx(c.j, n);
            let l = if f == 1 || f == 2 { a.l } else { lin_of(c.phi2, c.mirror2) };
            let ca = a.apply(d[i].0);
            let cb = l.apply(d[j].0);
            let u = P::new(c.dir.cos(), c.dir.sin());
            // disc i of A and disc j of B exactly tangent (f=3: inner tangency of the centres i.e. coincident centres)
            let sep = if f == 3 { 0. } else { d[i].1 + d[j].1 };
            (a, Aff { l, t: ca.add(u.scale(sep)).sub(cb) }, if f == 3 { "disc-centres-coincide" } else { "discs-tangent" })
        }
    }
}

fn judge(code: bool, gap: f64) -> Result<(), &'static str> {
    if gap < -1e-9 && !code {
        Err("answers NO although the interiors overlap")
    } else if gap > 1e-9 && code {
        Err("answers YES although the shapes are separated")
    } else {
        Ok(())
    }
}

fn oracle(c: &PairCase, rec: &Rec, ctx: &Ctx) -> Result<(), String> {
    enum Built {
        Line(packing::LineShape),
        Mol(packing::MolecularShape2),
    }
    let (built, os) = match &c.shape {
        ShapeSpec::Polygon { .. } | ShapeSpec::Radial { .. } => {
            let s = line_shape(&c.shape).ok_or("shape cannot be built")?;
            let o = oshape_of_line(&s);
            (Built::Line(s), o)
        }
        _ => {
            let s = mol_shape(&c.shape).ok_or("shape cannot be built")?;
            let o = oshape_of_mol(&s);
            (Built::Mol(s), o)
        }
    };
    if let OShape::Poly(v) = &os {
        if !geom::is_convex(v) {
            rec.class("skipped-nonconvex");
            return Ok(());
        }
    }
    if let OShape::Discs(d) = &os {
        if d.iter().any(|(c, r)| !(r.is_finite() && *r > 0. && c.x.is_finite() && c.y.is_finite())) {
            rec.class("skipped-degenerate-discs");
            return Ok(());
        }
    }
    let (pa, pb, fam) = placements(c, &os);
    let common = Aff { l: lin_of(c.common.0, c.common.3), t: P::new(c.common.1, c.common.2) };
    let variants: [(&str, Aff, Aff); 3] = [("as given", pa, pb), ("arguments swapped", pb, pa), ("after a common motion", common.mul(pa), common.mul(pb))];
    let mut gap0 = 0.;
    for (vi, (what, ta, tb)) in variants.iter().enumerate() {
        let oa = os.transform(ta);
        let ob = os.transform(tb);
        let gap = oa.gap(&ob);
        if vi == 0 {
            gap0 = gap;
        }
        let code = match &built {
            Built::Line(s) => s.transform(&to_transform(ta)).intersects(&s.transform(&to_transform(tb))),
            Built::Mol(s) => s.transform(&to_transform(ta)).intersects(&s.transform(&to_transform(tb))),
        };
        rec.eval(1);
        if let Err(why) = judge(code, gap) {
            let msg = format!("intersects() {} ({}; family {}; signed gap {:e}; placements {:?} / {:?})", why, what, fam, gap, ta, tb);
            let aligned = match (&oa, &ob) {
                (OShape::Poly(x), OShape::Poly(y)) => geom::edge_aligned(x, y, 1e-9),
                _ => false,
            };
            if aligned && ctx.known.listed("C12", "aligned-edges") {
                rec.known("aligned-edges", || format!("LineShape::intersects answers by rounding noise on edge-aligned placements, e.g. {}", msg));
                continue;
            }
            return Err(msg);
        }
    }
    let nt = gap0.abs() < 0.05 || fam != "generic";
    let kind = match os {
        OShape::Poly(_) => "poly",
        OShape::Discs(_) => "discs",
    };
    let verdict = if gap0 < -1e-9 {
        "overlap"
    } else if gap0 > 1e-9 {
        "separate"
    } else {
        "touching-band"
    };
    let class = format!("{}/{}/{}", kind, fam, verdict);
    rec.class(&class);
    if nt {
        rec.nontrivial(hash_f64s(&[c.family as f64, c.phi1, c.phi2, c.dir, c.dist, c.s, c.tpar, c.gap_exp, c.i as f64, c.j as f64]));
    }
    if rec.wants_sample(&class) {
        rec.sample(&class, || serde_json::to_value(c).unwrap());
    }
    Ok(())
}

pub fn parts() -> Vec<PartDef> {
    vec![
        part("polygons", 6_000_000, 120_000_000, |_| strat_for(line_shape_spec()), oracle),
        part("discs", 2_000_000, 40_000_000, |_| strat_for(mol_shape_spec()), oracle),
    ]
}

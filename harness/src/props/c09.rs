//! C09 — same seed, same answer: results do not depend on threads or other replicas.

use std::sync::atomic::{AtomicUsize, Ordering};

use packing::traits::State;
use proptest::prelude::*;
use rayon::prelude::*;
use serde::{Deserialize, Serialize};

use crate::cli::{self, CliArgs, CliShape};
use crate::engine::{hash_json, idx, part, part_opts, Ctx, PartDef, PartOpts, Rec};
use crate::geom;
use crate::opt::OptCfg;
use crate::statejson::{self, ShapeSpec};

pub const TITLE: &str = "Same seed, same answer: results do not depend on threads or other replicas";
pub const RULE: &str = "part batches: a batch of 4..24 optimisation tasks (hard polygon / hard discs / Lennard-Jones, any group, configurations with an explicit seed, 50..1500 steps, duplicates included), each run alone on the calling thread to obtain the reference JSON, then the whole batch run concurrently on rayon pools of generated sizes (1..16 threads; four batches at a time) in a generated submission order, every task cloning one shared input state per (kind, group, shape) inside its worker. Oracle: every concurrent result serialises byte-identically to its reference; the shared input states serialise byte-identically before and after. part cli: the real binary with generated arguments under RAYON_NUM_THREADS in {1,2,3,5,8,16} and repeated (two fifths of the cases with 8..24 replicas and either a step size of 1e-8..1e-10, so that the replicas nearly tie, or a step size of 1e3..1e6 or 1e-17, so that different replicas end with bit-identical scores); .json and .svg byte-identical throughout. part selection: 3..40 states whose scores form chains of near-ties (relative differences 1e-14..1e-7): the best one selected by a parallel max() on pools of 1..16 threads must be the state selected sequentially. Non-trivial = a pool run in which >= 2 tasks were observed running at the same time on >= 2 distinct worker threads (counted with an atomic in-flight counter, no clock), or a CLI case with >= 2 replications; distinct by hash of the case.";

pub fn assumptions() -> Vec<&'static str> {
    vec![
        "rayon's work-stealing schedule is sampled (pool sizes, batch shapes, submission orders, 16 harness shards running at once), not enumerated: a race needing one specific interleaving can be missed",
        "results are compared through serde_json::to_string of the returned state",
    ]
}

#[derive(Clone, Debug, Serialize, Deserialize)]
pub struct Task {
    /// index into the batch's shared input states
    pub input: u16,
    pub cfg: OptCfg,
}

#[derive(Clone, Debug, Serialize, Deserialize)]
pub struct Input {
    pub group: usize,
    /// 0 hard polygon, 1 hard discs, 2 Lennard-Jones
    pub kind: u8,
    pub shape: ShapeSpec,
}

#[derive(Clone, Debug, Serialize, Deserialize)]
pub struct BatchCase {
    pub inputs: Vec<Input>,
    pub tasks: Vec<Task>,
    pub pools: Vec<usize>,
    pub order_seed: Vec<u16>,
}

fn input_strat() -> BoxedStrategy<Input> {
    (0usize..7, 0u8..3)
        .prop_flat_map(|(group, kind)| {
            let shape = if kind == 0 { crate::gen::line_shape_spec() } else { prop_oneof![Just(ShapeSpec::Circle), Just(ShapeSpec::Trimer { radius: 0.637556, angle: 120., distance: 1. }), (0.3..1.0f64, 30.0..180.0f64, 0.5..1.2f64).prop_map(|(radius, angle, distance)| ShapeSpec::Trimer { radius, angle, distance })].boxed() };
            (Just(group), Just(kind), shape)
        })
        .prop_map(|(group, kind, shape)| Input { group, kind, shape })
        .boxed()
}

fn cfg_strat() -> BoxedStrategy<OptCfg> {
    (50u64..1500, prop_oneof![Just(1000u64), 10u64..300], prop_oneof![Just(0.), 0.001..0.5f64], prop_oneof![Just(None), Just(Some(0.1))], prop_oneof![Just(0.01), Just(0.2), Just(1.0)], 0u64..6)
        .prop_map(|(steps, inner, kt_start, kt_ratio, max_step, seed)| OptCfg { steps, inner, kt_start, kt_finish: None, kt_ratio, max_step, convergence: None, seed })
        .boxed()
}

/// inputs that share every parameter value although they are different crystals: one group, shapes of the same
/// enclosing radius (regular polygons, the circle), so that the from_group states differ in nothing the optimiser moves
fn sibling_inputs() -> BoxedStrategy<Vec<Input>> {
    (0usize..7, proptest::collection::vec(prop_oneof![3 => (3usize..=12).prop_map(|sides| (0u8, ShapeSpec::Polygon { sides })), 1 => Just((1u8, ShapeSpec::Circle))], 2..=4))
        .prop_map(|(group, v)| v.into_iter().map(|(kind, shape)| Input { group, kind, shape }).collect())
        .boxed()
}

fn batch_strat(_: &Ctx) -> BoxedStrategy<BatchCase> {
    (
        prop_oneof![2 => proptest::collection::vec(input_strat(), 1..=4), 1 => sibling_inputs()],
        proptest::collection::vec((any::<u16>(), cfg_strat()), 4..=24),
        proptest::collection::vec(prop_oneof![4 => 1usize..=16, 1 => Just(2usize), 1 => Just(16usize)], 1..=3),
        proptest::collection::vec(any::<u16>(), 24),
    )
        .prop_map(|(inputs, t, pools, order_seed)| BatchCase { inputs, tasks: t.into_iter().map(|(input, cfg)| Task { input, cfg }).collect(), pools, order_seed })
        .boxed()
}

enum AnyState {
    Line(packing::PackedState<packing::LineShape>),
    Mol(packing::PackedState<packing::MolecularShape2>),
    Lj(packing::PotentialState<packing::LJShape2>),
}

impl AnyState {
    fn build(i: &Input) -> Result<AnyState, String> {
        let wg = statejson::wg(i.group);
        Ok(match i.kind {
            0 => AnyState::Line(packing::PackedState::from_group(statejson::line_shape(&i.shape).ok_or("shape")?, &wg).map_err(|e| e.to_string())?),
            1 => AnyState::Mol(packing::PackedState::from_group(statejson::mol_shape(&i.shape).ok_or("shape")?, &wg).map_err(|e| e.to_string())?),
            _ => AnyState::Lj(packing::PotentialState::from_group(statejson::lj_shape(&i.shape).ok_or("shape")?, &wg).map_err(|e| e.to_string())?),
        })
    }
    fn json(&self) -> String {
        match self {
            AnyState::Line(s) => serde_json::to_string(s).unwrap_or_default(),
            AnyState::Mol(s) => serde_json::to_string(s).unwrap_or_default(),
            AnyState::Lj(s) => serde_json::to_string(s).unwrap_or_default(),
        }
    }
    fn usable(&self) -> bool {
        match self {
            AnyState::Line(s) => s.score().map(|x| x.is_finite()).unwrap_or(false),
            AnyState::Mol(s) => s.score().map(|x| x.is_finite()).unwrap_or(false),
            AnyState::Lj(s) => s.score().map(|x| x.is_finite()).unwrap_or(false),
        }
    }
    /// optimise a clone of the shared state; returns the JSON of the result ("PANIC" if the optimiser panicked)
    fn optimise_clone(&self, cfg: &OptCfg) -> String {
        let r = std::panic::catch_unwind(std::panic::AssertUnwindSafe(|| match self {
            AnyState::Line(s) => serde_json::to_string(&cfg.build().optimise_state(s.clone())).unwrap_or_default(),
            AnyState::Mol(s) => serde_json::to_string(&cfg.build().optimise_state(s.clone())).unwrap_or_default(),
            AnyState::Lj(s) => serde_json::to_string(&cfg.build().optimise_state(s.clone())).unwrap_or_default(),
        }));
        r.unwrap_or_else(|_| "PANIC".to_string())
    }
}

// SharedValue is Sync by declaration of the package; the states are only read (cloned) by the workers.
unsafe impl Sync for AnyState {}

fn batch_oracle(c: &BatchCase, rec: &Rec, _: &Ctx) -> Result<(), String> {
    let inputs: Vec<AnyState> = c.inputs.iter().map(AnyState::build).collect::<Result<_, _>>()?;
    if inputs.iter().any(|s| !s.usable()) {
        rec.class("batches/skipped-unusable-input");
        return Ok(());
    }
    let before: Vec<String> = inputs.iter().map(|s| s.json()).collect();
    let tasks: Vec<(usize, &OptCfg)> = c.tasks.iter().map(|t| (idx(t.input, inputs.len()), &t.cfg)).collect();
    // reference: alone, on this thread
    let reference: Vec<String> = tasks.iter().map(|(i, cfg)| inputs[*i].optimise_clone(cfg)).collect();
    rec.eval(tasks.len() as u64);
    for (k, s) in inputs.iter().enumerate() {
        if s.json() != before[k] {
            return Err(format!("optimising a clone changed the original state (input {})", k));
        }
    }
    // a second sequential pass must reproduce the reference (same process, other replicas ran before)
    for (k, (i, cfg)) in tasks.iter().enumerate().take(3) {
        if inputs[*i].optimise_clone(cfg) != reference[k] {
            return Err(format!("running task {} a second time on the same thread gives a different result (group {}, config {:?})", k, geom::GROUP_NAMES[c.inputs[*i].group], cfg));
        }
    }
    // permutation of the submission order
    let mut order: Vec<usize> = (0..tasks.len()).collect();
    for k in (1..order.len()).rev() {
        let j = idx(c.order_seed[k % c.order_seed.len()], k + 1);
        order.swap(k, j);
    }
    let mut overlapped = false;
    for &threads in c.pools.iter() {
        let pool = rayon::ThreadPoolBuilder::new().num_threads(threads).build().map_err(|e| format!("cannot build a rayon pool: {}", e))?;
        let in_flight = AtomicUsize::new(0);
        let max_in_flight = AtomicUsize::new(0);
        let workers = std::sync::Mutex::new(std::collections::BTreeSet::new());
        let results: Vec<(usize, String)> = pool.install(|| {
            order
                .par_iter()
                .map(|&k| {
                    let now = in_flight.fetch_add(1, Ordering::SeqCst) + 1;
                    max_in_flight.fetch_max(now, Ordering::SeqCst);
                    workers.lock().unwrap().insert(rayon::current_thread_index());
                    let (i, cfg) = tasks[k];
                    let out = inputs[i].optimise_clone(cfg);
                    in_flight.fetch_sub(1, Ordering::SeqCst);
                    (k, out)
                })
                .collect()
        });
        rec.eval(results.len() as u64);
        for (k, out) in results.iter() {
            if *out != reference[*k] {
                let (i, cfg) = tasks[*k];
                return Err(format!(
                    "task {} (group {}, {:?}, config {:?}) gives a different result when run on a pool of {} threads together with {} other tasks than when run alone",
                    k,
                    geom::GROUP_NAMES[c.inputs[i].group],
                    c.inputs[i].shape,
                    cfg,
                    threads,
                    tasks.len() - 1
                ));
            }
        }
        if max_in_flight.load(Ordering::SeqCst) >= 2 && workers.lock().unwrap().len() >= 2 {
            overlapped = true;
        }
    }
    for (k, s) in inputs.iter().enumerate() {
        if s.json() != before[k] {
            return Err(format!("concurrently optimising clones changed the shared original state (input {})", k));
        }
    }
    let class = format!("batches/{}", if overlapped { "overlapping-workers" } else { "no-overlap-observed" });
    rec.class(&class);
    if overlapped {
        rec.nontrivial(hash_json(&serde_json::to_value(c).unwrap()));
    }
    if rec.wants_sample(&class) {
        rec.sample(&class, || serde_json::json!({"inputs": c.inputs, "n_tasks": c.tasks.len(), "pools": c.pools, "first_task": c.tasks[0]}));
    }
    Ok(())
}

#[derive(Clone, Debug, Serialize, Deserialize)]
pub struct CliCase {
    pub args: CliArgs,
    pub threads: Vec<usize>,
}

fn cli_strat(_: &Ctx) -> BoxedStrategy<CliCase> {
    let shape = prop_oneof![
        (3i64..=8).prop_map(|s| CliShape::Polygon { sides: Some(s) }),
        Just(CliShape::Circle),
        (0.3..1.2f64, 30.0..180.0f64, 0.4..1.0f64).prop_map(|(distance, angle, radius)| CliShape::Trimer { distance: Some(distance), angle: Some(angle), radius: Some(radius) }),
    ];
    (0usize..7, shape, any::<bool>(), 1i64..=6, prop_oneof![Just(100i64), Just(400)], proptest::collection::vec(proptest::sample::select(vec![1usize, 2, 3, 5, 8, 16]), 2..=3), prop_oneof![3 => Just(None), 1 => (8i64..=24, prop_oneof![Just(1e-9f64), Just(1e-10), Just(1e-8)]).prop_map(Some), 1 => (8i64..=24, prop_oneof![Just(1e3f64), Just(1e6), Just(1e-17)]).prop_map(Some)])
        .prop_map(|(g, shape, lj, replications, steps, threads, near_ties)| {
            let lj = lj && !matches!(shape, CliShape::Polygon { .. });
            // near-tie regime: many replicas that barely move, so that their scores agree to many digits and the
            // selection of the best one is the only thing a schedule could influence
            let (replications, max_step) = match near_ties {
                Some((k, m)) => (k, m),
                None => (replications, 0.1),
            };
            CliCase {
                args: CliArgs {
                    group: geom::GROUP_NAMES[g].to_string(),
                    shape,
                    potential: if lj { Some("LJ".to_string()) } else { None },
                    replications: Some(replications),
                    steps: Some(steps),
                    inner_steps: Some(100),
                    kt_start: Some(0.1),
                    kt_finish: None,
                    kt_ratio: Some(0.3),
                    max_step_size: Some(max_step),
                    convergence: None,
                    verbosity: 0,
                    start_config: None,
                },
                threads,
            }
        })
        .boxed()
}

fn cli_oracle(c: &CliCase, rec: &Rec, ctx: &Ctx) -> Result<(), String> {
    let mut first: Option<(String, String, usize)> = None;
    // every thread count of the case, and the first one twice (process restart)
    let mut runs: Vec<usize> = c.threads.clone();
    runs.push(c.threads[0]);
    for &t in runs.iter() {
        let out = cli::run_args(ctx, &c.args, Some(t))?;
        rec.eval(1);
        if out.timed_out {
            crate::mark_broken();
            return Ok(());
        }
        if out.status != Some(0) {
            rec.class("cli/nonzero-exit-skipped");
            return Ok(());
        }
        let json = out.json.ok_or("no .json")?;
        let svg = out.svg.ok_or("no .svg")?;
        match &first {
            None => first = Some((json, svg, t)),
            Some((j0, s0, t0)) => {
                if *j0 != json {
                    return Err(format!("`packing {}` writes a different .json with RAYON_NUM_THREADS={} than with {}", c.args.to_argv(std::path::Path::new("out")).join(" "), t, t0));
                }
                if *s0 != svg {
                    return Err(format!("`packing {}` writes a different .svg with RAYON_NUM_THREADS={} than with {}", c.args.to_argv(std::path::Path::new("out")).join(" "), t, t0));
                }
            }
        }
    }
    let nt = c.args.replications.unwrap_or(1) >= 2;
    let class = format!("cli/{}replicas", if nt { "multi-" } else { "single-" });
    rec.class(&class);
    if nt {
        rec.nontrivial(hash_json(&serde_json::to_value(c).unwrap()));
    }
    if rec.wants_sample(&class) {
        rec.sample(&class, || serde_json::to_value(c).unwrap());
    }
    Ok(())
}

// ------------------------------------------------------------------------------------------------
// selecting the best of many states in parallel (what the CLI does with its replicas)

#[derive(Clone, Debug, Serialize, Deserialize)]
pub struct SelectCase {
    pub group: usize,
    pub lj: bool,
    pub sides: usize,
    /// the cells differ by multiples of this relative amount: chains of near-ties
    pub delta_exp: f64,
    pub states: Vec<(u8, f64, f64)>,
    pub pools: Vec<usize>,
}

fn select_strat(_: &Ctx) -> BoxedStrategy<SelectCase> {
    (0usize..7, any::<bool>(), 3usize..=8, -14.0..-7.0f64, proptest::collection::vec((0u8..6, -0.5..0.5f64, -0.5..0.5f64), 3..=40), proptest::collection::vec(1usize..=16, 2..=4))
        .prop_map(|(group, lj, sides, delta_exp, states, pools)| SelectCase { group, lj, sides, delta_exp, states, pools })
        .boxed()
}

fn select_generic<S>(states: Vec<S>, pools: &[usize]) -> Result<usize, String>
where
    S: State + Clone + Send + Sync + Serialize,
{
    let reference = states.iter().cloned().max().ok_or("empty")?;
    let ref_json = serde_json::to_string(&reference).unwrap_or_default();
    for &t in pools.iter() {
        let pool = rayon::ThreadPoolBuilder::new().num_threads(t).build().map_err(|e| e.to_string())?;
        for rep in 0..3 {
            let got = pool.install(|| states.par_iter().cloned().max()).ok_or("empty")?;
            let j = serde_json::to_string(&got).unwrap_or_default();
            if j != ref_json {
                return Err(format!(
                    "the best of {} states selected in parallel on {} threads (attempt {}) is a different state (score {:?}) than the one selected sequentially (score {:?})",
                    states.len(),
                    t,
                    rep + 1,
                    got.score(),
                    reference.score()
                ));
            }
        }
    }
    let mut d: Vec<u64> = states.iter().map(|s| s.score().unwrap_or(f64::NAN).to_bits()).collect();
    d.sort();
    d.dedup();
    Ok(d.len())
}

fn select_oracle(c: &SelectCase, rec: &Rec, _: &Ctx) -> Result<(), String> {
    let wg = statejson::wg(c.group);
    let delta = 10f64.powf(c.delta_exp);
    rec.eval(c.states.len() as u64);
    let distinct = if c.lj {
        let init = packing::PotentialState::from_group(packing::LJShape2::circle(), &wg).map_err(|e| e.to_string())?;
        let p0 = statejson::params_of(&init).ok_or("params")?;
        // the states differ in cell size (near-tie scores) and orientation (so that they are distinguishable);
        // the initial site keeps the copies more than two radii apart whatever the orientation
        let v: Result<Vec<_>, String> = c.states.iter().map(|(m, x, y)| statejson::with_params(&init, &statejson::Params { length: p0.length * 2. * (1. + *m as f64 * delta), phi: (x + 0.5) * 6.28 + y * 1e-3, ..p0.clone() })).collect();
        select_generic(v?, &c.pools)?
    } else {
        let init = packing::PackedState::from_group(packing::LineShape::polygon(c.sides).map_err(|e| e.to_string())?, &wg).map_err(|e| e.to_string())?;
        let p0 = statejson::params_of(&init).ok_or("params")?;
        let v: Result<Vec<_>, String> = c.states.iter().map(|(m, x, y)| statejson::with_params(&init, &statejson::Params { length: p0.length * (1. + *m as f64 * delta), phi: (x + 0.5) * 6.28 + y * 1e-3, ..p0.clone() })).collect();
        let v = v?;
        if v.iter().any(|s| s.score().is_none()) {
            rec.class("selection/skipped-undefined-score");
            return Ok(());
        }
        select_generic(v, &c.pools)?
    };
    let class = format!("selection/{}{}", if c.lj { "lj" } else { "hard" }, if distinct >= 3 { "/near-tie-chain" } else { "" });
    rec.class(&class);
    if distinct >= 3 {
        rec.nontrivial(hash_json(&serde_json::to_value(c).unwrap()));
    }
    if rec.wants_sample(&class) {
        rec.sample(&class, || serde_json::to_value(c).unwrap());
    }
    Ok(())
}

pub fn parts() -> Vec<PartDef> {
    // the batches run their own thread pools: few harness shards, and little shrinking (a batch is expensive)
    vec![
        part_opts("batches", 300, 12_000, batch_strat, batch_oracle, |c: &BatchCase, _: &dyn Fn(&BatchCase) -> bool| c.clone(), PartOpts { max_shards: 4, max_shrink_iters: 24 }),
        part("cli", 120, 2_400, cli_strat, cli_oracle),
        part_opts("selection", 2_000, 60_000, select_strat, select_oracle, |c: &SelectCase, _: &dyn Fn(&SelectCase) -> bool| c.clone(), PartOpts { max_shards: 4, max_shrink_iters: 64 }),
    ]
}

//! C18 — the temperature follows the requested annealing schedule.

use proptest::prelude::*;
use serde::{Deserialize, Serialize};

use crate::engine::{hash_json, part, Ctx, PartDef, Rec, Tier};
use crate::opt::{run_script, OptCfg, WorsePolicy};
use crate::props::c07::count_worse_trials;

pub const TITLE: &str = "The temperature follows the requested annealing schedule";
pub const RULE: &str = "cases = kt_start log-uniform in [1e-3,10] (or 0), one cooling factor per loop f in [0.3,1] (a sixth of the finish-path cases: f log-uniform in [1e-20,1e-1], measured from a score re-centred to exactly 0 after every accepted move) given either as kt_ratio = 1-f or as kt_finish = kt_start f^L, L in 1..12 inner loops of 1000 or 4000 steps (thorough: 8000/20000), steps = L*inner plus an optional remainder; for L <= 5 optionally with a convergence threshold that every loop meets (it cannot end such a run and must not alter the schedule). Synthetic state with 8 parameters, max_step 1e-3 (no clamping); in loop i every proposal is worse by d_i = ln2 * kt_start f^(i-1), so a correct schedule accepts about half of them in every loop and a wrong one drifts to 0 or 1. Per loop the acceptance frequency gives a 6-sigma interval for kT_i = -d_i / ln p. Checked: first and second half of each loop agree (constant kT within a loop); kT_1 = kt_start; ratio path: kT_i = kt_start (1-ratio)^(i-1) for all i; finish path: one factor g explains all loops and puts the last loop within one cooling step of kt_finish (kt_finish*g <= kT_L <= kt_finish/g); kt_start = 0: no worse move accepted in any loop. Non-trivial = L >= 3; distinct by hash of the case. A third of the ratio-path cases also pass a finishing temperature (0 or 1e-4..10), which must be ignored.";

pub fn assumptions() -> Vec<&'static str> {
    vec![
        "the temperature is inferred statistically (6-sigma binomial intervals, false alarm below 1e-7 per case)",
        "the finish path accepts every convention in which the last loop's temperature is within one cooling step of kt_finish (exponent 1/L, 1/(L-1), 1/(L-2))",
    ]
}

#[derive(Clone, Debug, Serialize, Deserialize)]
pub struct SchedCase {
    pub kt_start: f64,
    pub f: f64,
    pub by_ratio: bool,
    pub loops: u64,
    pub big_inner: bool,
    pub remainder: u64,
    pub seed: u64,
    /// a convergence threshold so large that every loop counts as converged; used only with <= 5 loops, where it
    /// can never end the run (more than five consecutive converged loops are needed) and must not change the schedule
    #[serde(default)]
    pub with_convergence: bool,
    /// extreme cooling: log10 of the per-loop factor (1e-20 .. 1e-1), finish path only; the worse moves are then measured
    /// from a score kept at exactly 0 so that differences of 1e-200 remain representable
    #[serde(default)]
    pub extreme_exp: Option<f64>,
    /// ratio path only: a finishing temperature given as well (the ratio decides, the finishing temperature is ignored)
    #[serde(default)]
    pub also_finish: Option<f64>,
}

fn strat(_: &Ctx) -> BoxedStrategy<SchedCase> {
    (
        prop_oneof![5 => (-3.0..1.0f64).prop_map(|e| 10f64.powf(e)), 1 => Just(0.)],
        prop_oneof![4 => 0.3..1.0f64, 1 => Just(1.0), 1 => Just(0.5), 1 => Just(0.9)],
        any::<bool>(),
        1u64..=12,
        any::<bool>(),
        prop_oneof![Just(0u64), 1u64..900],
        any::<u64>(),
        prop_oneof![2 => Just(false), 1 => Just(true)],
        prop_oneof![5 => Just(None), 1 => (-20.0..-1.0f64).prop_map(Some)],
        prop_oneof![2 => Just(None), 1 => (-4.0..1.0f64).prop_map(|e| Some(10f64.powf(e))), 1 => Just(Some(0.))],
    )
        .prop_map(|(kt_start, f, by_ratio, loops, big_inner, remainder, seed, with_convergence, extreme_exp, also_finish)| match extreme_exp {
            Some(e) if kt_start > 0. => SchedCase { kt_start, f: 10f64.powf(e), by_ratio: false, loops, big_inner, remainder, seed, with_convergence, extreme_exp, also_finish: None },
            _ => SchedCase { kt_start, f, by_ratio, loops, big_inner, remainder, seed, with_convergence, extreme_exp: None, also_finish: if by_ratio { also_finish } else { None } },
        })
        .boxed()
}

fn interval(acc: u64, n: u64) -> (f64, f64, f64) {
    let nf = n as f64;
    let p = acc as f64 / nf;
    let e = 6. * ((p * (1. - p)).max(1. / nf) / nf).sqrt() + 1. / nf;
    (p, (p - e).max(0.), (p + e).min(1.))
}

fn kt_of(d: f64, p: f64) -> f64 {
    if p <= 0. {
        0.
    } else if p >= 1. {
        f64::INFINITY
    } else {
        -d / p.ln()
    }
}

fn oracle(c: &SchedCase, rec: &Rec, ctx: &Ctx) -> Result<(), String> {
    let inner: u64 = match (ctx.tier, c.big_inner) {
        (Tier::Quick, false) => 1000,
        (Tier::Quick, true) => 4000,
        (Tier::Thorough, false) => 8000,
        (Tier::Thorough, true) => 20000,
    };
    let l = c.loops;
    let steps = l * inner + c.remainder.min(inner - 1);
    let (kt_ratio, kt_finish) = if c.by_ratio { (Some(1. - c.f), c.also_finish) } else { (None, Some(c.kt_start * c.f.powi(l as i32))) };
    let convergence = if c.with_convergence && l <= 5 { Some(1e9) } else { None };
    let cfg = OptCfg { steps, inner, kt_start: c.kt_start, kt_finish, kt_ratio, max_step: 1e-3, convergence, seed: c.seed };
    let zero = c.kt_start == 0.;
    let d: Vec<f64> = (0..l).map(|i| if zero { 1e-3 } else { std::f64::consts::LN_2 * c.kt_start * c.f.powi(i as i32) }).collect();
    let policy = WorsePolicy { d_per_loop: d.clone(), inner, proposals: cfg.proposals(), base: 0., recentre: c.extreme_exp.is_some() };
    let out = run_script(&cfg, &vec![0.5; 8], &vec![(0., 1.); 8], zero, true, Box::new(policy));
    rec.eval(out.steps.len() as u64 + 1);
    if let Some(p) = &out.panicked {
        return Err(format!("optimiser panicked: {}", p));
    }
    if out.steps.len() as u64 != cfg.proposals() + 1 {
        // a different amount of work than requested is C20's subject; the loop attribution below would be wrong
        rec.class("unexpected-call-count-skipped");
        return Ok(());
    }
    if zero {
        if let Some((k, msg)) = &out.inconsistency {
            return Err(format!("kt_start = 0: a worse move was accepted (temperature did not stay zero) at call {} (loop {}): {}", k, (k - 1) as u64 / inner + 1, msg));
        }
        let cnt = count_worse_trials(&out, 1, cfg.proposals() as usize);
        if cnt.accepted > 0 {
            return Err(format!("kt_start = 0: {} worse moves were accepted", cnt.accepted));
        }
    } else {
        if let Some((k, msg)) = &out.inconsistency {
            return Err(format!("trace not explained by any accept/reject history at call {}: {}", k, msg));
        }
        let mut g_lo: f64 = 0.;
        let mut g_hi = f64::INFINITY;
        for i in 0..l {
            let first = (i * inner + 1) as usize;
            let last = ((i + 1) * inner) as usize;
            let mid = (first + last) / 2;
            let a = count_worse_trials(&out, first, mid);
            let b = count_worse_trials(&out, mid + 1, last);
            let all = count_worse_trials(&out, first, last);
            // re-centred runs spend a third of their steps on the way back to the base score
            if all.trials < if c.extreme_exp.is_some() { inner / 4 } else { inner / 2 } {
                return Err(format!("loop {}: only {} of {} steps could be counted; the check is starved", i + 1, all.trials, inner));
            }
            // (1) constant within the loop
            let (pa, pb) = (a.accepted as f64 / a.trials as f64, b.accepted as f64 / b.trials as f64);
            let pm = all.accepted as f64 / all.trials as f64;
            let tol = 6. * ((pm * (1. - pm)).max(1. / all.trials as f64) * (1. / a.trials as f64 + 1. / b.trials as f64)).sqrt() + 2. / a.trials as f64;
            if (pa - pb).abs() > tol {
                return Err(format!("loop {}: acceptance of equally worse moves is {:.4} in the first half and {:.4} in the second half (tolerance {:.4}): the temperature is not constant within an inner loop", i + 1, pa, pb, tol));
            }
            let (p, plo, phi) = interval(all.accepted, all.trials);
            let (klo, khi) = (kt_of(d[i as usize], plo), kt_of(d[i as usize], phi));
            let _ = p;
            if i == 0 {
                // (2)
                if !(klo <= c.kt_start && c.kt_start <= khi) {
                    return Err(format!("loop 1: inferred temperature in [{}, {}] but kt_start = {}", klo, khi, c.kt_start));
                }
            } else if c.by_ratio {
                // (3)
                let want = c.kt_start * c.f.powi(i as i32);
                if !(klo <= want && want <= khi) {
                    return Err(format!("loop {}: inferred temperature in [{:e}, {:e}] but kt_start (1-kt_ratio)^{} = {:e} (kt_start {}, kt_ratio {})", i + 1, klo, khi, i, want, c.kt_start, 1. - c.f));
                }
            } else {
                // (4) collect the admissible per-loop factor
                let lo = (klo / c.kt_start).powf(1. / i as f64);
                let hi = (khi / c.kt_start).powf(1. / i as f64);
                g_lo = g_lo.max(lo);
                g_hi = g_hi.min(hi);
            }
        }
        if !c.by_ratio && l >= 2 {
            let r = c.f.powi(l as i32); // kt_finish / kt_start
            let upper = r.powf(1. / l as f64) * (1. + 1e-12);
            // with two loops the coldest admissible convention runs the second loop at kt_finish itself
            let lower = if l > 2 { r.powf(1. / (l as f64 - 2.)) * (1. - 1e-12) } else { r * (1. - 1e-12) };
            let lo = g_lo.max(lower);
            let hi = g_hi.min(upper);
            if !(lo <= hi) {
                return Err(format!(
                    "finish path: no single cooling factor explains the loops and ends within one cooling step of kt_finish: acceptance frequencies allow a per-loop factor in [{:e}, {:e}], reaching kt_finish = {:e} from kt_start = {} in {} loops needs a factor in [{:e}, {:e}]",
                    g_lo, g_hi, c.kt_start * r, c.kt_start, l, lower, upper
                ));
            }
        }
    }
    let nt = l >= 3;
    let class = format!("{}{}/L{}", if zero { "kT0" } else if c.by_ratio && c.also_finish.is_some() { "ratio-and-finish-given" } else if c.by_ratio { "ratio" } else if c.extreme_exp.is_some() { "finish-extreme-factor" } else { "finish" }, if c.remainder > 0 { "/non-multiple" } else { "" }, if l >= 3 { ">=3" } else { "<3" });
    rec.class(&class);
    if nt {
        rec.nontrivial(hash_json(&serde_json::to_value(c).unwrap()));
    }
    if rec.wants_sample(&class) {
        rec.sample(&class, || serde_json::to_value(c).unwrap());
    }
    Ok(())
}

pub fn parts() -> Vec<PartDef> {
    vec![part("schedules", 3_000, 12_000, strat, oracle)]
}

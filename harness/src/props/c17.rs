//! C17 — symmetry-operation strings parse to the affine map they denote; anything else never panics.

use proptest::prelude::*;
use proptest::sample::select;
use serde::{Deserialize, Serialize};

use crate::engine::{idx, part, Ctx, PartDef, Rec};
pub use crate::opgrammar::{check_grammar_string, no_panic, render, Comp, OpCase, Term};

pub const TITLE: &str = "Symmetry-operation strings parse to the affine map they denote";
pub const RULE: &str = "part grammar: an AST per component = a permutation of a non-empty subset of {+-x, +-y, +-c}, c = d or d/d' (single digits, d' != 0), rendered with optional leading '+', optional spaces after the comma and around binary +/-, optional enclosing parentheses; two components. Oracle: from_operations is Ok and maps 5 generated points to the AST's value (abs 1e-12). Spaces are never put inside d/d' or after a leading unary sign, so a stricter but correct parser is not blamed; blanks on either side of a binary + or - (x - 1/2) are part of the grammar (the statement's 'optional spaces'). Non-trivial = some component has >= 2 terms and starts with a constant or a negated variable. part exhaustive-components: every component AST of that grammar in every rendering, in either position next to a fixed second component (complete enumeration, ~5e6 strings; the parser handles components independently). part arbitrary: any::<String>(), strings over the alphabet \"xyXYz0-9+-*/(),. \\t\" and single-character mutations of grammar strings; oracle: the call returns (Ok or Err) without panicking; non-trivial = the string is not in the grammar and has >= 3 characters. Distinct by hash of the string.";

pub fn assumptions() -> Vec<&'static str> {
    vec!["nothing is asserted about which non-grammar strings are accepted", "the thorough tier adds a libFuzzer campaign over the same two oracles (fuzz/ directory), reported in the evidence"]
}

fn term_strats() -> (BoxedStrategy<Term>, BoxedStrategy<Term>, BoxedStrategy<Term>) {
    (
        any::<bool>().prop_map(Term::X).boxed(),
        any::<bool>().prop_map(Term::Y).boxed(),
        (any::<bool>(), 0u8..=9, prop_oneof![Just(0u8), 1u8..=9]).prop_map(|(n, d, q)| Term::C(n, d, q)).boxed(),
    )
}

fn comp() -> BoxedStrategy<Comp> {
    let (x, y, c) = term_strats();
    // subset mask 1..=7, permutation index, then the terms
    (1u8..=7, any::<u16>(), x, y, c, any::<bool>(), proptest::collection::vec((any::<bool>(), any::<bool>()), 3))
        .prop_map(|(mask, perm, x, y, c, lead_plus, sp)| {
            let mut terms = vec![];
            if mask & 1 != 0 {
                terms.push(x);
            }
            if mask & 2 != 0 {
                terms.push(y);
            }
            if mask & 4 != 0 {
                terms.push(c);
            }
            // permutation chosen monotonically from perm
            let n = terms.len();
            let fact = [1usize, 1, 2, 6][n];
            let mut code = idx(perm, fact);
            let mut pool = terms;
            let mut out = vec![];
            for i in (1..=n).rev() {
                let f = [1usize, 1, 2, 6][i - 1];
                let k = code / f;
                code %= f;
                out.push(pool.remove(k));
            }
            Comp { terms: out, lead_plus, sp }
        })
        .boxed()
}

pub fn grammar_case() -> BoxedStrategy<OpCase> {
    let long_run = prop_oneof![30 => Just(0u16), 1 => 1u16..40, 1 => 200u16..700];
    (comp(), comp(), any::<bool>(), 0u16..3, any::<bool>(), proptest::collection::vec((-3.0..3.0f64, -3.0..3.0f64), 5), long_run)
        .prop_map(|(a, b, parens, comma_spaces, lead_space, points, long_run)| OpCase { a, b, parens, comma_spaces, long_run, lead_space, points })
        .boxed()
}

fn hash_str(s: &str) -> u64 {
    use std::hash::{Hash, Hasher};
    let mut h = std::collections::hash_map::DefaultHasher::new();
    s.hash(&mut h);
    h.finish()
}

fn grammar_oracle(c: &OpCase, rec: &Rec, _: &Ctx) -> Result<(), String> {
    rec.eval(1);
    let s = check_grammar_string(c)?;
    let tricky = |k: &Comp| k.terms.len() >= 2 && matches!(k.terms[0], Term::C(..) | Term::X(true) | Term::Y(true));
    let nt = tricky(&c.a) || tricky(&c.b);
    let class = format!("terms{}+{}{}{}", c.a.terms.len(), c.b.terms.len(), if nt { "/const-or-neg-first" } else { "" }, if c.parens { "/parens" } else { "" });
    rec.class(&class);
    if nt {
        rec.nontrivial(hash_str(&s));
    }
    if rec.wants_sample(&class) {
        rec.sample(&class, || serde_json::json!({"string": s}));
    }
    Ok(())
}

#[derive(Clone, Debug, Serialize, Deserialize)]
pub struct StrCase {
    pub s: String,
}

fn arbitrary_strat(_: &Ctx) -> BoxedStrategy<StrCase> {
    let alphabet: Vec<char> = "xyXYz0123456789+-*/(),. \t".chars().collect();
    let a2 = alphabet.clone();
    prop_oneof![
        2 => any::<String>(),
        4 => proptest::collection::vec(select(alphabet.clone()), 0..40).prop_map(|v| v.into_iter().collect::<String>()),
        // long strings: a long run of one accepted character (blank, digit, letter, sign) inside a short random string
        1 => (proptest::collection::vec(select(alphabet.clone()), 0..12), select(alphabet), 100usize..1200, any::<u16>()).prop_map(|(v, ch, n, pos)| {
            let mut v = v;
            let p = idx(pos, v.len() + 1).min(v.len());
            for _ in 0..n {
                v.insert(p, ch);
            }
            v.into_iter().collect::<String>()
        }),
        4 => (grammar_case(), any::<u16>(), 0u8..4, select(a2)).prop_map(|(g, pos, kind, ch)| {
            let s: Vec<char> = render(&g).chars().collect();
            let mut v = s.clone();
            let p = idx(pos, v.len().max(1));
            match kind {
                0 => v.insert(p.min(v.len()), ch),
                1 => {
                    if !v.is_empty() {
                        v.remove(p);
                    }
                }
                2 => {
                    if !v.is_empty() {
                        let c = v[p];
                        v.insert(p, c);
                    }
                }
                _ => {
                    if !v.is_empty() {
                        v[p] = ch;
                    }
                }
            }
            v.into_iter().collect::<String>()
        }),
    ]
    .prop_map(|s| StrCase { s })
    .boxed()
}

fn arbitrary_oracle(c: &StrCase, rec: &Rec, _: &Ctx) -> Result<(), String> {
    rec.eval(1);
    let ok = no_panic(&c.s)?;
    let class = if ok { "accepted" } else { "rejected" };
    rec.class(class);
    if c.s.chars().count() >= 3 {
        rec.nontrivial(hash_str(&c.s));
    }
    if rec.wants_sample(class) {
        rec.sample(class, || serde_json::json!({"string": c.s}));
    }
    Ok(())
}

/// every component AST of the grammar (all subsets, orders, signs, constants d and d/d') in every rendering
/// (leading '+', blanks around binary operators, parentheses, blanks after the comma), in the first and in the second
/// position, the other component being a fixed simple one — the parser treats the two components independently.
fn exhaustive_components(ctx: &Ctx, ev: &mut crate::evidence::Evidence) {
    let mut consts: Vec<Term> = vec![];
    for neg in [false, true].iter() {
        for d in 0u8..=9 {
            consts.push(Term::C(*neg, d, 0));
            for q in 1u8..=9 {
                consts.push(Term::C(*neg, d, q));
            }
        }
    }
    let xs = [Term::X(false), Term::X(true)];
    let ys = [Term::Y(false), Term::Y(true)];
    let mut asts: Vec<Vec<Term>> = vec![];
    let perms3: [[usize; 3]; 6] = [[0, 1, 2], [0, 2, 1], [1, 0, 2], [1, 2, 0], [2, 0, 1], [2, 1, 0]];
    for x in xs.iter() {
        asts.push(vec![x.clone()]);
    }
    for y in ys.iter() {
        asts.push(vec![y.clone()]);
    }
    for c in consts.iter() {
        asts.push(vec![c.clone()]);
    }
    for x in xs.iter() {
        for y in ys.iter() {
            asts.push(vec![x.clone(), y.clone()]);
            asts.push(vec![y.clone(), x.clone()]);
        }
    }
    for v in xs.iter().chain(ys.iter()) {
        for c in consts.iter() {
            asts.push(vec![v.clone(), c.clone()]);
            asts.push(vec![c.clone(), v.clone()]);
        }
    }
    for x in xs.iter() {
        for y in ys.iter() {
            for c in consts.iter() {
                let t = [x.clone(), y.clone(), c.clone()];
                for p in perms3.iter() {
                    asts.push(vec![t[p[0]].clone(), t[p[1]].clone(), t[p[2]].clone()]);
                }
            }
        }
    }
    let other = Comp { terms: vec![Term::Y(false), Term::C(false, 1, 2)], lead_plus: false, sp: vec![(false, false); 3] };
    let points = vec![(0.37, -2.25), (1., 0.), (0., 1.), (-1.5, 0.625)];
    let n_asts = asts.len();
    let total = std::sync::atomic::AtomicU64::new(0);
    let failure: std::sync::Mutex<Option<(OpCase, String)>> = std::sync::Mutex::new(None);
    let chunk = (n_asts + ctx.threads - 1) / ctx.threads.max(1);
    std::thread::scope(|scope| {
        for part in asts.chunks(chunk.max(1)) {
            let total = &total;
            let failure = &failure;
            let other = &other;
            let points = &points;
            scope.spawn(move || {
                let mut n = 0u64;
                for terms in part.iter() {
                    let gaps = terms.len().saturating_sub(1);
                    for lead_plus in [false, true].iter() {
                        for spmask in 0u32..(1 << (2 * gaps)) {
                            let mut sp = vec![(false, false); 3];
                            for g in 0..gaps {
                                // sp[i] is used for the operator before term i (i >= 1)
                                sp[g + 1] = (spmask >> (2 * g) & 1 == 1, spmask >> (2 * g + 1) & 1 == 1);
                            }
                            for parens in [false, true].iter() {
                                for comma_spaces in 0u16..3 {
                                    for first in [true, false].iter() {
                                        let comp = Comp { terms: terms.clone(), lead_plus: *lead_plus, sp: sp.clone() };
                                        let case = if *first {
                                            OpCase { a: comp, b: other.clone(), parens: *parens, comma_spaces, long_run: 0, lead_space: false, points: points.clone() }
                                        } else {
                                            OpCase { a: other.clone(), b: comp, parens: *parens, comma_spaces, long_run: 0, lead_space: false, points: points.clone() }
                                        };
                                        n += 1;
                                        if let Err(msg) = check_grammar_string(&case) {
                                            let mut f = failure.lock().unwrap();
                                            if f.is_none() {
                                                *f = Some((case, msg));
                                            }
                                            total.fetch_add(n, std::sync::atomic::Ordering::SeqCst);
                                            return;
                                        }
                                    }
                                }
                            }
                        }
                    }
                }
                total.fetch_add(n, std::sync::atomic::Ordering::SeqCst);
            });
        }
    });
    let done = total.load(std::sync::atomic::Ordering::SeqCst);
    let mut m = crate::engine::Merged::default();
    m.evals = done;
    m.cases = done;
    m.nontrivial_total = done;
    for k in 0..(done.min(crate::engine::NT_CAP as u64)) {
        m.nontrivial.insert(k);
    }
    *m.classes.entry("strings".to_string()).or_insert(0) += done;
    m.samples.entry("exhaustive".to_string()).or_insert_with(Vec::new).push(serde_json::json!({"component_asts": n_asts, "strings_checked": done, "example": render(&OpCase { a: Comp { terms: asts[n_asts - 1].clone(), lead_plus: true, sp: vec![(true, true); 3] }, b: other.clone(), parens: true, comma_spaces: 1, long_run: 0, lead_space: false, points: vec![] })}));
    ev.absorb_part("exhaustive-components", &m);
    ev.extra.insert("exhaustive_components".to_string(), serde_json::json!({"component_asts": n_asts, "strings_checked": done, "complete": failure.lock().unwrap().is_none()}));
    if let Some((case, msg)) = failure.into_inner().unwrap() {
        crate::engine::fail_case(ctx, ev, "grammar", serde_json::to_value(&case).unwrap(), format!("(exhaustive enumeration) {}", msg));
    }
}

/// thorough tier only: coverage-guided campaign with the same two oracles (target in /verif/fuzz)
fn libfuzzer_part(ctx: &Ctx, ev: &mut crate::evidence::Evidence) {
    use std::process::Command;
    if ctx.tier != crate::engine::Tier::Thorough {
        return;
    }
    let fuzz_dir = ctx.verif_dir.join("fuzz");
    let target_dir = ctx.verif_dir.join("target").join("fuzz");
    let work = ctx.verif_dir.join("target").join(format!("fuzz-work-{}", std::process::id()));
    let corpus = work.join("corpus");
    let artifacts = work.join("artifacts");
    let _ = std::fs::create_dir_all(&corpus);
    let _ = std::fs::create_dir_all(&artifacts);
    let _ = std::fs::copy("/repo/Cargo.lock", fuzz_dir.join("Cargo.lock"));
    // seed corpus: the strings of the unit tests and of the tables (string mode), and a few grammar byte strings
    let seeds = ["x,y", "-x,-y", "-x,y", "x,-y", "-x,y+1/2", "-x+1/2, y", "x+1/2, -y", "-x+1/2, y+1/2", "x+1/2, -y+1/2", "(x, y)", "x, y, z", "x", "1/2,1/2", "-1/2+x, 2*y"];
    for (i, s) in seeds.iter().enumerate() {
        let mut b = vec![0u8];
        b.extend_from_slice(s.as_bytes());
        let _ = std::fs::write(corpus.join(format!("seed-s{}", i)), b);
    }
    for i in 0..16u8 {
        let b: Vec<u8> = std::iter::once(1u8).chain((0..18u8).map(|k| k.wrapping_mul(37).wrapping_add(i.wrapping_mul(91)))).collect();
        let _ = std::fs::write(corpus.join(format!("seed-g{}", i)), b);
    }
    let build = Command::new("cargo").args(&["+nightly", "fuzz", "build", "--fuzz-dir"]).arg(&fuzz_dir).arg("--target-dir").arg(&target_dir).env("CARGO_NET_OFFLINE", "true").output();
    let built = matches!(&build, Ok(o) if o.status.success());
    if !built {
        eprintln!("HARNESS-NOTE: the libFuzzer target does not build here (cargo +nightly fuzz); the coverage-guided campaign is skipped");
        ev.extra.insert("libfuzzer".to_string(), serde_json::json!("unavailable: cargo +nightly fuzz build failed"));
        let _ = std::fs::remove_dir_all(&work);
        return;
    }
    let runs = ctx.pick(0, 20_000_000);
    let out = Command::new("cargo")
        .args(&["+nightly", "fuzz", "run", "--fuzz-dir"])
        .arg(&fuzz_dir)
        .arg("--target-dir")
        .arg(&target_dir)
        .arg("ops")
        .arg(&corpus)
        .arg("--")
        .arg(format!("-runs={}", runs))
        .arg(format!("-seed={}", (ctx.seed % 2_000_000_000).max(1)))
        .arg("-len_control=0")
        .arg("-max_len=64")
        .arg("-max_total_time=1500")
        .arg(format!("-artifact_prefix={}/", artifacts.display()))
        .env("CARGO_NET_OFFLINE", "true")
        .output();
    let text = match &out {
        Ok(o) => String::from_utf8_lossy(&o.stderr).to_string(),
        Err(e) => format!("cannot run: {}", e),
    };
    let done: u64 = text.lines().rev().find_map(|l| l.strip_prefix("Done ").and_then(|r| r.split_whitespace().next()).and_then(|n| n.parse().ok())).unwrap_or(0);
    let cov = text.lines().rev().find(|l| l.contains(" cov: ")).unwrap_or("").to_string();
    let mut m = crate::engine::Merged::default();
    m.evals = done;
    m.cases = done;
    *m.classes.entry("libfuzzer-executions".to_string()).or_insert(0) += done;
    ev.extra.insert("libfuzzer".to_string(), serde_json::json!({"executions": done, "last_status_line": cov.trim(), "seed_corpus": seeds.len() + 16}));
    // artifacts -> replay files judged in-process
    let mut crash_files: Vec<std::path::PathBuf> = std::fs::read_dir(&artifacts).map(|rd| rd.filter_map(|e| e.ok().map(|e| e.path())).collect()).unwrap_or_default();
    crash_files.sort();
    ev.absorb_part("libfuzzer", &m);
    for f in crash_files.iter() {
        let data = match std::fs::read(f) {
            Ok(d) if !d.is_empty() => d,
            _ => continue,
        };
        if data[0] & 1 == 0 {
            let s = String::from_utf8_lossy(&data[1..]).to_string();
            match no_panic(&s) {
                Err(msg) => crate::engine::fail_case(ctx, ev, "arbitrary", serde_json::json!({"s": s}), format!("(found by libFuzzer) {}", msg)),
                Ok(_) => {
                    eprintln!("HARNESS-ERROR: libFuzzer artifact {} does not reproduce in-process", f.display());
                    crate::mark_broken();
                }
            }
        } else {
            let case = crate::opgrammar::decode_case(&data[1..]);
            match check_grammar_string(&case) {
                Err(msg) => crate::engine::fail_case(ctx, ev, "grammar", serde_json::to_value(&case).unwrap(), format!("(found by libFuzzer) {}", msg)),
                Ok(_) => {
                    eprintln!("HARNESS-ERROR: libFuzzer artifact {} does not reproduce in-process", f.display());
                    crate::mark_broken();
                }
            }
        }
    }
    if let Ok(o) = &out {
        if !o.status.success() && crash_files.is_empty() {
            eprintln!("HARNESS-NOTE: libFuzzer exited with {:?} without an artifact: {}", o.status.code(), text.lines().rev().take(3).collect::<Vec<_>>().join(" | "));
        }
    }
    let _ = std::fs::remove_dir_all(&work);
}

pub fn parts() -> Vec<PartDef> {
    vec![
        part("grammar", 3_000_000, 60_000_000, |_| grammar_case(), grammar_oracle),
        part("arbitrary", 3_000_000, 60_000_000, arbitrary_strat, arbitrary_oracle),
        crate::engine::custom_part("exhaustive-components", exhaustive_components, |_, _, _| Err("findings of the enumeration are replayed through the grammar part".to_string())),
        crate::engine::custom_part("libfuzzer", libfuzzer_part, |_, _, _| Err("libFuzzer findings are replayed through the grammar/arbitrary parts".to_string())),
    ]
}

//! C17 — symmetry-operation strings parse to the affine map they denote; anything else never panics.

use std::panic::{catch_unwind, AssertUnwindSafe};

use nalgebra::Point2;
use packing::traits::FromSymmetry;
use packing::Transform2;
use proptest::prelude::*;
use proptest::sample::select;
use serde::{Deserialize, Serialize};

use crate::engine::{idx, part, Ctx, PartDef, Rec};

pub const TITLE: &str = "Symmetry-operation strings parse to the affine map they denote";
pub const RULE: &str = "part grammar: an AST per component = a permutation of a non-empty subset of {+-x, +-y, +-c}, c = d or d/d' (single digits, d' != 0), rendered with optional leading '+', optional spaces after the comma and around binary +/-, optional enclosing parentheses; two components. Oracle: from_operations is Ok and maps 5 generated points to the AST's value (abs 1e-12). Spaces are never put inside d/d' or between a sign and its term, so a stricter but correct parser is not blamed. Non-trivial = some component has >= 2 terms and starts with a constant or a negated variable. part arbitrary: any::<String>(), strings over the alphabet \"xyXYz0-9+-*/(),. \\t\" and single-character mutations of grammar strings; oracle: the call returns (Ok or Err) without panicking; non-trivial = the string is not in the grammar and has >= 3 characters. Distinct by hash of the string.";

pub fn assumptions() -> Vec<&'static str> {
    vec!["nothing is asserted about which non-grammar strings are accepted", "the thorough tier adds a libFuzzer campaign over the same two oracles (fuzz/ directory), reported in the evidence"]
}

#[derive(Clone, Debug, Serialize, Deserialize, PartialEq)]
pub enum Term {
    X(bool),
    Y(bool),
    /// negative?, numerator, denominator (0 = none)
    C(bool, u8, u8),
}

#[derive(Clone, Debug, Serialize, Deserialize)]
pub struct Comp {
    pub terms: Vec<Term>,
    /// leading '+' on the first term when it is positive
    pub lead_plus: bool,
    /// spaces before/after each binary operator
    pub sp: Vec<(bool, bool)>,
}

#[derive(Clone, Debug, Serialize, Deserialize)]
pub struct OpCase {
    pub a: Comp,
    pub b: Comp,
    pub parens: bool,
    pub comma_spaces: u8,
    pub lead_space: bool,
    pub points: Vec<(f64, f64)>,
}

fn term_strats() -> (BoxedStrategy<Term>, BoxedStrategy<Term>, BoxedStrategy<Term>) {
    (
        any::<bool>().prop_map(Term::X).boxed(),
        any::<bool>().prop_map(Term::Y).boxed(),
        (any::<bool>(), 0u8..=9, prop_oneof![Just(0u8), 1u8..=9]).prop_map(|(n, d, q)| Term::C(n, d, q)).boxed(),
    )
}

fn comp() -> BoxedStrategy<Comp> {
    let (x, y, c) = term_strats();
    // subset mask 1..=7, permutation index, then the terms
    (1u8..=7, any::<u16>(), x, y, c, any::<bool>(), proptest::collection::vec((any::<bool>(), any::<bool>()), 3))
        .prop_map(|(mask, perm, x, y, c, lead_plus, sp)| {
            let mut terms = vec![];
            if mask & 1 != 0 {
                terms.push(x);
            }
            if mask & 2 != 0 {
                terms.push(y);
            }
            if mask & 4 != 0 {
                terms.push(c);
            }
            // permutation chosen monotonically from perm
            let n = terms.len();
            let fact = [1usize, 1, 2, 6][n];
            let mut code = idx(perm, fact);
            let mut pool = terms;
            let mut out = vec![];
            for i in (1..=n).rev() {
                let f = [1usize, 1, 2, 6][i - 1];
                let k = code / f;
                code %= f;
                out.push(pool.remove(k));
            }
            Comp { terms: out, lead_plus, sp }
        })
        .boxed()
}

pub fn grammar_case() -> BoxedStrategy<OpCase> {
    (comp(), comp(), any::<bool>(), 0u8..3, any::<bool>(), proptest::collection::vec((-3.0..3.0f64, -3.0..3.0f64), 5))
        .prop_map(|(a, b, parens, comma_spaces, lead_space, points)| OpCase { a, b, parens, comma_spaces, lead_space, points })
        .boxed()
}

fn render_term(t: &Term) -> (bool, String) {
    match t {
        Term::X(n) => (*n, "x".to_string()),
        Term::Y(n) => (*n, "y".to_string()),
        Term::C(n, d, q) => (*n, if *q == 0 { format!("{}", d) } else { format!("{}/{}", d, q) }),
    }
}

fn render_comp(c: &Comp) -> String {
    let mut s = String::new();
    for (i, t) in c.terms.iter().enumerate() {
        let (neg, body) = render_term(t);
        if i == 0 {
            if neg {
                s.push('-');
            } else if c.lead_plus {
                s.push('+');
            }
        } else {
            let (before, after) = c.sp[i.min(c.sp.len() - 1)];
            let _ = after; // a space between a sign and its term is not generated
            if before {
                s.push(' ');
            }
            s.push(if neg { '-' } else { '+' });
        }
        s.push_str(&body);
    }
    s
}

pub fn render(c: &OpCase) -> String {
    let mut s = String::new();
    if c.parens {
        s.push('(');
    }
    if c.lead_space && !c.parens {
        // leading blank only without parentheses (trim of braces happens first in any reader)
    }
    s.push_str(&render_comp(&c.a));
    s.push(',');
    for _ in 0..c.comma_spaces {
        s.push(' ');
    }
    s.push_str(&render_comp(&c.b));
    if c.parens {
        s.push(')');
    }
    s
}

fn eval_comp(c: &Comp, x: f64, y: f64) -> f64 {
    let mut v = 0.;
    for t in c.terms.iter() {
        v += match t {
            Term::X(n) => {
                if *n {
                    -x
                } else {
                    x
                }
            }
            Term::Y(n) => {
                if *n {
                    -y
                } else {
                    y
                }
            }
            Term::C(n, d, q) => {
                let m = if *q == 0 { *d as f64 } else { *d as f64 / *q as f64 };
                if *n {
                    -m
                } else {
                    m
                }
            }
        };
    }
    v
}

fn hash_str(s: &str) -> u64 {
    use std::hash::{Hash, Hasher};
    let mut h = std::collections::hash_map::DefaultHasher::new();
    s.hash(&mut h);
    h.finish()
}

pub fn check_grammar_string(c: &OpCase) -> Result<String, String> {
    let s = render(c);
    let res = catch_unwind(AssertUnwindSafe(|| Transform2::from_operations(&s)));
    let t = match res {
        Err(_) => return Err(format!("from_operations({:?}) panicked", s)),
        Ok(Err(e)) => return Err(format!("from_operations({:?}) rejected a string of the grammar: {}", s, e)),
        Ok(Ok(t)) => t,
    };
    for (x, y) in c.points.iter() {
        let q = t * Point2::new(*x, *y);
        let wx = eval_comp(&c.a, *x, *y);
        let wy = eval_comp(&c.b, *x, *y);
        if !((q.x - wx).abs() <= 1e-12 && (q.y - wy).abs() <= 1e-12) {
            return Err(format!("from_operations({:?}) maps ({}, {}) to ({}, {}); the expression denotes ({}, {})", s, x, y, q.x, q.y, wx, wy));
        }
    }
    Ok(s)
}

fn grammar_oracle(c: &OpCase, rec: &Rec, _: &Ctx) -> Result<(), String> {
    rec.eval(1);
    let s = check_grammar_string(c)?;
    let tricky = |k: &Comp| k.terms.len() >= 2 && matches!(k.terms[0], Term::C(..) | Term::X(true) | Term::Y(true));
    let nt = tricky(&c.a) || tricky(&c.b);
    let class = format!("terms{}+{}{}{}", c.a.terms.len(), c.b.terms.len(), if nt { "/const-or-neg-first" } else { "" }, if c.parens { "/parens" } else { "" });
    rec.class(&class);
    if nt {
        rec.nontrivial(hash_str(&s));
    }
    if rec.wants_sample(&class) {
        rec.sample(&class, || serde_json::json!({"string": s}));
    }
    Ok(())
}

#[derive(Clone, Debug, Serialize, Deserialize)]
pub struct StrCase {
    pub s: String,
}

fn arbitrary_strat(_: &Ctx) -> BoxedStrategy<StrCase> {
    let alphabet: Vec<char> = "xyXYz0123456789+-*/(),. \t".chars().collect();
    let a2 = alphabet.clone();
    prop_oneof![
        2 => any::<String>(),
        4 => proptest::collection::vec(select(alphabet), 0..40).prop_map(|v| v.into_iter().collect::<String>()),
        4 => (grammar_case(), any::<u16>(), 0u8..4, select(a2)).prop_map(|(g, pos, kind, ch)| {
            let s: Vec<char> = render(&g).chars().collect();
            let mut v = s.clone();
            let p = idx(pos, v.len().max(1));
            match kind {
                0 => v.insert(p.min(v.len()), ch),
                1 => {
                    if !v.is_empty() {
                        v.remove(p);
                    }
                }
                2 => {
                    if !v.is_empty() {
                        let c = v[p];
                        v.insert(p, c);
                    }
                }
                _ => {
                    if !v.is_empty() {
                        v[p] = ch;
                    }
                }
            }
            v.into_iter().collect::<String>()
        }),
    ]
    .prop_map(|s| StrCase { s })
    .boxed()
}

pub fn no_panic(s: &str) -> Result<bool, String> {
    match catch_unwind(AssertUnwindSafe(|| Transform2::from_operations(s).is_ok())) {
        Ok(ok) => Ok(ok),
        Err(_) => Err(format!("from_operations({:?}) panicked instead of returning Ok or Err", s)),
    }
}

fn arbitrary_oracle(c: &StrCase, rec: &Rec, _: &Ctx) -> Result<(), String> {
    rec.eval(1);
    let ok = no_panic(&c.s)?;
    let class = if ok { "accepted" } else { "rejected" };
    rec.class(class);
    if c.s.chars().count() >= 3 {
        rec.nontrivial(hash_str(&c.s));
    }
    if rec.wants_sample(class) {
        rec.sample(class, || serde_json::json!({"string": c.s}));
    }
    Ok(())
}

pub fn parts() -> Vec<PartDef> {
    vec![part("grammar", 300_000, 10_000_000, |_| grammar_case(), grammar_oracle), part("arbitrary", 300_000, 10_000_000, arbitrary_strat, arbitrary_oracle)]
}

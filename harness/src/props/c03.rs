//! C03 — the Lennard-Jones score is minus the crystal's lattice energy per molecule.

use std::f64::consts::PI;

use packing::traits::{Potential, Shape, State};
use packing::LJShape2;
use proptest::prelude::*;
use serde::{Deserialize, Serialize};

use crate::engine::{hash_f64s, part, Ctx, PartDef, Rec};
use crate::gen::{is_oblique, mixf};
use crate::geom::{self, Aff, Lattice, P};
use crate::statejson::{self, lj_shape, Params, ShapeSpec, StateSpec};

pub const TITLE: &str = "The Lennard-Jones score is minus the crystal's lattice energy per molecule";
pub const RULE: &str = "cases = (group, LJ shape: circle sigma=1 uncut, or trimer radius 0.2..1.2 x angle 0..180 x distance 0..2 with cutoff 3.5) x cell (area per molecule log-uniform in 0.3..20 enclosing-disc areas, ratio 0.1..1, angle pi/6..pi/2 for oblique groups) x site (bound-heavy mixture) x a re-description twin {none, origin shift by (1/2,0),(0,1/2),(1/2,1/2), any shift along a free direction (p1: both; p1m1/p1g1: y), 2-fold re-description (-x,-y,phi+pi) for groups with a 2-fold, a copy moved across a face (x+-1 or y+-1)}; in a fifth of the cases the state object is first scored with another shape and then given the shape under test through its public field (a stale cached score would show). Oracle: the harness enumerates, from the lattice geometry, every unordered pair of distinct molecule images with centre distance below cutoff + 2 molecule radii (uncut: 30 sigma), each once, places the molecules itself and sums the package's own pair energy (symmetrised); score must equal -sum/N within 1e-9 of the sum of |terms|. Uncut potential: any value between the 3-shell partial sum and the converged sum (+ analytic tail bound 2 pi rho/Rc^4) is accepted. The twin must score the same (cut potential: same tolerance; uncut: each inside its own admissible interval). Cases with coincident atoms (r < 1e-9) are skipped and counted. Non-trivial = some contributing pair involves an image with lattice index != 0 and (N >= 2 or a self-image term exists); distinct by hash of the numbers. part multi-site: 2..4 occupied sites (initialise), same once-per-pair lattice sum over the union of the copies, per molecule. part golden: the 300 LJ structures of /verif/golden/lj.json re-read from their stored text and judged the same way (unreadable files are counted, not reported).";

pub fn assumptions() -> Vec<&'static str> {
    vec![
        "pair energies come from the package's LJ2/LJShape2::energy on molecules the harness places (C13 decides the pair law; this check decides the summation)",
        "work bound: cells whose cutoff sphere holds more than 2e4 molecule images are not generated",
        "with the 3-shell known finding listed, inputs whose exact sum needs an image beyond 3 cells accept the exact sum or the 3-shell sum, nothing else",
    ]
}

#[derive(Clone, Debug, Serialize, Deserialize)]
pub struct LjCase {
    pub spec: StateSpec,
    /// 0 none, 1..3 half shifts, 4 free shift, 5 two-fold, 6 across face
    pub twin: u8,
    pub shift: (f64, f64),
    pub face: (i8, i8),
    /// when set: the state is first built and scored with this other shape, then its public `shape` field is
    /// replaced by the case's shape and it is scored again (the second score is the one judged)
    pub replaced_from: Option<ShapeSpec>,
}

fn lj_shape_spec() -> BoxedStrategy<ShapeSpec> {
    prop_oneof![
        2 => Just(ShapeSpec::Circle),
        5 => (mixf(0.2, 1.2, vec![0.637556, 1.0, 0.5]), mixf(0., 180., vec![120., 60., 180.]), mixf(0., 2.0, vec![1.0, 0.5])).prop_map(|(radius, angle, distance)| ShapeSpec::Trimer { radius, angle, distance }),
    ]
    .boxed()
}

fn mol_radius(shape: &LJShape2) -> f64 {
    shape.items.iter().map(|a| (a.position.x.powi(2) + a.position.y.powi(2)).sqrt()).fold(0., f64::max)
}

fn strat(_: &Ctx) -> BoxedStrategy<LjCase> {
    (0usize..7, lj_shape_spec())
        .prop_flat_map(|(group, shape)| {
            let n = geom::group(group).ops.len() as f64;
            let r = match &shape {
                ShapeSpec::Circle => 0.5,
                ShapeSpec::Trimer { radius, distance, .. } => (distance + radius).max(1.0),
                _ => 1.0,
            };
            let angle = if is_oblique(group) { mixf(PI / 6., PI / 2., vec![PI / 2., PI / 3.]) } else { Just(PI / 2.).boxed() };
            (
                Just(group),
                Just(shape),
                (-0.5..1.3f64).prop_map(|e| 10f64.powf(e)),
                mixf(0.1, 1.0, vec![1.0, 0.5]),
                angle,
                (mixf(-0.5, 0.5, vec![0., 0.25]), mixf(-0.5, 0.5, vec![0., 0.25]), mixf(0., 2. * PI, vec![0., PI])),
                0u8..7,
                (-0.5..0.5f64, -0.5..0.5f64),
                (prop_oneof![Just(-1i8), Just(0i8), Just(1i8)], prop_oneof![Just(-1i8), Just(0i8), Just(1i8)]),
                prop_oneof![4 => Just(None), 1 => lj_shape_spec().prop_map(Some)],
            )
                .prop_map(move |(group, shape, per_mol, ratio, angle, (x, y, phi), twin, shift, face, replaced_from)| {
                    let cell_area = n * per_mol * PI * r * r;
                    let length = (cell_area / (ratio * angle.sin())).sqrt();
                    LjCase { spec: StateSpec { group, shape, p: Params { length, ratio, angle, x, y, phi } }, twin, shift, face, replaced_from }
                })
        })
        .boxed()
}

pub struct Sum {
    pub energy: f64,
    pub abs: f64,
    pub pairs: u64,
    pub max_index: i64,
    pub min_r: f64,
    pub nontrivial: bool,
}

/// energy per cell: every unordered pair of distinct molecule images once; `max_shell` restricts to |n|,|m| <= k
pub fn lattice_energy(shape: &LJShape2, group: usize, p: &Params, rho: f64, max_shell: Option<i64>) -> Sum {
    let g = geom::group(group);
    let lat = Lattice::from_params(p.length, p.ratio, p.angle);
    let copies = geom::site_copies_cartesian(&g, &lat, p.x, p.y, p.phi);
    lattice_energy_copies(shape, &lat, &copies, rho, max_shell)
}

/// the molecule moved by the harness's own affine map (particle parameters untouched); the package's
/// LJShape2::transform is not used by the oracle
fn place(shape: &LJShape2, c: &Aff) -> LJShape2 {
    let mut moved = shape.clone();
    for a in moved.items.iter_mut() {
        let q = c.apply(crate::geom::P::new(a.position.x, a.position.y));
        a.position = nalgebra::Point2::new(q.x, q.y);
    }
    moved
}

/// the same for any list of placed copies (several occupied sites)
pub fn lattice_energy_copies(shape: &LJShape2, lat: &Lattice, copies: &[Aff], rho: f64, max_shell: Option<i64>) -> Sum {
    let placed: Vec<LJShape2> = copies.iter().map(|c| place(shape, c)).collect();
    let a = lat.va();
    let b = lat.vb();
    let mut s = Sum { energy: 0., abs: 0., pairs: 0, max_index: 0, min_r: f64::INFINITY, nontrivial: false };
    // sum over atom pairs of the magnitude of the uncut pair energy at the cutoff distance
    let shift_mag: f64 = {
        let mut m = 0.;
        for x in shape.items.iter() {
            for y in shape.items.iter() {
                if let (Some(cx), Some(cy)) = (x.cutoff, y.cutoff) {
                    let rc = 0.5 * (cx + cy);
                    let a = crate::statejson::lj2(0., 0., x.sigma, x.epsilon, None);
                    let b = crate::statejson::lj2(rc, 0., y.sigma, y.epsilon, None);
                    let e = a.energy(&b).abs();
                    if e.is_finite() {
                        m += e;
                    }
                }
            }
        }
        m
    };
    let mut buf = Vec::new();
    for i in 0..copies.len() {
        for j in i..copies.len() {
            buf.clear();
            let delta = copies[j].t.sub(copies[i].t);
            geom::lattice_vectors_within(lat, delta, rho, &mut buf);
            for (n, m, _) in buf.iter() {
                if i == j && (*m < 0 || (*m == 0 && *n <= 0)) {
                    continue;
                }
                if let Some(k) = max_shell {
                    if n.abs() > k || m.abs() > k {
                        continue;
                    }
                }
                let shift = a.scale(*n as f64).add(b.scale(*m as f64));
                let moved = Aff { l: copies[j].l, t: copies[j].t.add(shift) };
                let other = place(shape, &moved);
                let e = 0.5 * (placed[i].energy(&other) + other.energy(&placed[i]));
                for x in placed[i].items.iter() {
                    for y in other.items.iter() {
                        let r = ((x.position.x - y.position.x).powi(2) + (x.position.y - y.position.y).powi(2)).sqrt();
                        if r < s.min_r {
                            s.min_r = r;
                        }
                    }
                }
                if e != 0. {
                    s.energy += e;
                    // a truncated-and-shifted pair energy is a difference of two terms of the size of the shift:
                    // its rounding (and conditioning) error scales with that size, not with the small difference
                    s.abs += e.abs() + shift_mag;
                    s.pairs += 1;
                    let idx = n.abs().max(m.abs());
                    if idx > s.max_index {
                        s.max_index = idx;
                    }
                    if idx != 0 && (copies.len() >= 2 || i == j) {
                        s.nontrivial = true;
                    }
                }
            }
        }
    }
    s
}

fn twin_params(c: &LjCase) -> Option<(Params, &'static str)> {
    let p = &c.spec.p;
    let g = c.spec.group;
    let has_twofold = matches!(g, 1 | 4 | 5 | 6);
    let mut q = p.clone();
    match c.twin {
        0 => None,
        1 => {
            q.x += 0.5;
            Some((q, "origin+(1/2,0)"))
        }
        2 => {
            q.y += 0.5;
            Some((q, "origin+(0,1/2)"))
        }
        3 => {
            q.x += 0.5;
            q.y += 0.5;
            Some((q, "origin+(1/2,1/2)"))
        }
        4 => match g {
            0 => {
                q.x += c.shift.0;
                q.y += c.shift.1;
                Some((q, "free-shift"))
            }
            2 | 3 => {
                q.y += c.shift.1;
                Some((q, "free-shift-y"))
            }
            _ => None,
        },
        5 => {
            if has_twofold {
                q.x = -p.x;
                q.y = -p.y;
                q.phi = p.phi + PI;
                Some((q, "two-fold-redescription"))
            } else {
                None
            }
        }
        _ => {
            if c.face == (0, 0) {
                None
            } else {
                q.x += c.face.0 as f64;
                q.y += c.face.1 as f64;
                Some((q, "across-face"))
            }
        }
    }
}

fn judge(shape: &LJShape2, group: usize, p: &Params, score: f64, uncut: bool, rho: f64, ctx: &Ctx, rec: &Rec, what: &str) -> Result<(bool, Sum), String> {
    let g = geom::group(group);
    let lat = Lattice::from_params(p.length, p.ratio, p.angle);
    let copies = geom::site_copies_cartesian(&g, &lat, p.x, p.y, p.phi);
    judge_copies(shape, &lat, &copies, &format!("group {}, params {:?}", geom::GROUP_NAMES[group], p), score, uncut, rho, ctx, rec, what)
}

pub fn judge_copies(shape: &LJShape2, lat: &Lattice, copies: &[Aff], desc: &str, score: f64, uncut: bool, rho: f64, ctx: &Ctx, rec: &Rec, what: &str) -> Result<(bool, Sum), String> {
    let n = copies.len() as f64;
    let full = lattice_energy_copies(shape, lat, copies, rho, None);
    rec.eval(1);
    if !(full.min_r > 1e-9) {
        return Ok((false, full));
    }
    // conditioning: an atom pair at distance r computed from coordinates of size ~4 L carries a relative
    // error ~ eps 4L / r in r, hence 12x that in its energy
    let cond = 100. * f64::EPSILON * 4. * lat.a.max(1.) / full.min_r;
    let tol = (1e-9 + cond) * full.abs / n + 1e-300;
    let want = -full.energy / n;
    if uncut {
        let three = lattice_energy_copies(shape, lat, copies, rho, Some(3));
        let density = n / lat.area();
        // tail beyond rho: all terms attractive when rho > 2^(1/6) sigma; |sum| <= 2 pi density /rho^4 per molecule (x 1/2 for pairs, x 4 eps)
        let tail = 2. * PI * density / rho.powi(4) * 1.5;
        let lo = (-three.energy / n).min(want) - 1e-9 * three.abs / n - tol;
        let hi = (-three.energy / n).max(want) + tail + tol;
        // the monotonicity argument needs every term beyond shell 3 to be attractive
        let lat_h = lat.height().min(lat.a * lat.theta.sin());
        if 3. * lat_h < 1.2 {
            return Ok((false, full));
        }
        if !(score >= lo && score <= hi) {
            return Err(format!("{}: score {} is outside the admissible interval [{}, {}] between the 3-shell partial sum and the converged lattice sum (once per pair) for {}", what, score, lo, hi, desc));
        }
        return Ok((true, full));
    }
    if (score - want).abs() <= tol {
        return Ok((true, full));
    }
    let msg = format!(
        "{}: score {} but minus the lattice energy per molecule is {} ({} pair terms, each pair once; farthest contributing image index {}) for {}",
        what, score, want, full.pairs, full.max_index, desc
    );
    if full.max_index > 3 && ctx.known.listed("C03", "lj-beyond-3-shells") {
        let three = lattice_energy_copies(shape, lat, copies, rho, Some(3));
        if (score + three.energy / n).abs() <= (1e-9 + cond) * three.abs / n + 1e-300 {
            rec.known("lj-beyond-3-shells", || format!("PotentialState::score sums only 3 shells of images; pairs inside the cutoff but further away are dropped in thin cells, e.g. {}", msg));
            return Ok((true, full));
        }
    }
    Err(msg)
}

fn oracle(c: &LjCase, rec: &Rec, ctx: &Ctx) -> Result<(), String> {
    let shape = lj_shape(&c.spec.shape).ok_or("not an LJ shape")?;
    let uncut = shape.items.iter().any(|a| a.cutoff.is_none());
    let rc = shape.items.iter().map(|a| a.cutoff.unwrap_or(0.)).fold(0., f64::max);
    let rho = if uncut { 30.0 } else { rc + 2. * mol_radius(&shape) + 1e-9 };
    // work bound
    let lat = Lattice::from_params(c.spec.p.length, c.spec.p.ratio, c.spec.p.angle);
    let n = geom::group(c.spec.group).ops.len() as f64;
    if PI * rho * rho / lat.area() * n > 2.0e4 {
        rec.class("skipped-work-bound");
        return Ok(());
    }
    let state = match &c.replaced_from {
        None => statejson::potential_lj(&c.spec)?,
        Some(other) => {
            // same object, scored once with another shape, then given the shape under test
            let mut st = statejson::potential_lj(&StateSpec { group: c.spec.group, shape: other.clone(), p: c.spec.p.clone() })?;
            let _ = st.score();
            st.shape = shape.clone();
            st
        }
    };
    let score = state.score().ok_or("PotentialState::score returned None")?;
    let (judged, sum) = judge(&shape, c.spec.group, &c.spec.p, score, uncut, rho, ctx, rec, "state")?;
    if !judged {
        rec.class(if sum.min_r > 1e-9 { "skipped-uncut-small-cell" } else { "skipped-coincident-atoms" });
        return Ok(());
    }
    let mut twin_class = "no-twin";
    if let Some((q, name)) = twin_params(c) {
        twin_class = name;
        let spec2 = StateSpec { group: c.spec.group, shape: c.spec.shape.clone(), p: q.clone() };
        let state2 = statejson::potential_lj(&spec2)?;
        let score2 = state2.score().ok_or("PotentialState::score returned None for the twin")?;
        let (j2, sum2) = judge(&shape, c.spec.group, &q, score2, uncut, rho, ctx, rec, name)?;
        if j2 && !uncut {
            let cond = 100. * f64::EPSILON * 4. * c.spec.p.length.max(1.) / sum.min_r.min(sum2.min_r);
            let tol = (1e-9 + cond) * (sum.abs + sum2.abs) / n + 1e-300;
            let both_need_far = sum.max_index > 3 || sum2.max_index > 3;
            if (score - score2).abs() > tol {
                let msg = format!("two descriptions of the same crystal score differently: {} vs {} ({}; params {:?} vs {:?}, group {})", score, score2, name, c.spec.p, q, geom::GROUP_NAMES[c.spec.group]);
                if both_need_far && ctx.known.listed("C03", "lj-beyond-3-shells") {
                    rec.known("lj-beyond-3-shells", || msg.clone());
                } else {
                    return Err(msg);
                }
            }
        }
    }
    let kind = match (uncut, c.replaced_from.is_some()) {
        (true, false) => "circle-uncut",
        (false, false) => "trimer-cut",
        (true, true) => "circle-uncut/shape-replaced",
        (false, true) => "trimer-cut/shape-replaced",
    };
    let class = format!("{}/{}/{}{}", kind, twin_class, if sum.nontrivial { "periodic-terms" } else { "no-periodic-terms" }, if sum.max_index > 3 { "/beyond-3-shells" } else { "" });
    rec.class(&class);
    if sum.nontrivial {
        let p = &c.spec.p;
        rec.nontrivial(hash_f64s(&[c.spec.group as f64, p.length, p.ratio, p.angle, p.x, p.y, p.phi, c.twin as f64]));
    }
    if rec.wants_sample(&class) {
        rec.sample(&class, || serde_json::json!({"case": c, "score": score, "pair_terms": sum.pairs}));
    }
    Ok(())
}

// ------------------------------------------------------------------------------------------------
// multi-site: 2..4 occupied sites; the energy per molecule counts every pair of placed molecules once

fn multi_strat(_: &Ctx) -> BoxedStrategy<crate::multisite::MultiSpec> {
    // cell area per molecule of 1..20 molecule discs (fraction relative to the area of the hard shape)
    crate::multisite::multi_strat(lj_shape_spec(), 0.05, 0.9, 2, 4)
}

fn multi_oracle(c: &crate::multisite::MultiSpec, rec: &Rec, ctx: &Ctx) -> Result<(), String> {
    use packing::traits::State;
    let shape = lj_shape(&c.shape).ok_or("not an LJ shape")?;
    let uncut = shape.items.iter().any(|a| a.cutoff.is_none());
    let rc = shape.items.iter().map(|a| a.cutoff.unwrap_or(0.)).fold(0., f64::max);
    let rho = if uncut { 30.0 } else { rc + 2. * mol_radius(&shape) + 1e-9 };
    let lat = c.lattice();
    let copies = c.copies();
    if PI * rho * rho / lat.area() * copies.len() as f64 > 2.0e4 {
        rec.class("skipped-work-bound");
        return Ok(());
    }
    let state = crate::multisite::potential(c)?;
    if state.total_shapes() != copies.len() {
        return Err(format!("a state with {} occupied sites reports {} molecules, the group places {} ({})", c.sites.len(), state.total_shapes(), copies.len(), c.describe()));
    }
    let score = state.score().ok_or("PotentialState::score returned None")?;
    let (judged, sum) = judge_copies(&shape, &lat, &copies, &c.describe(), score, uncut, rho, ctx, rec, "state with several occupied sites")?;
    if !judged {
        rec.class(if sum.min_r > 1e-9 { "skipped-uncut-small-cell" } else { "skipped-coincident-atoms" });
        return Ok(());
    }
    let class = format!("{}sites/{}{}", c.sites.len(), if uncut { "circle-uncut" } else { "trimer-cut" }, if sum.max_index > 3 { "/beyond-3-shells" } else { "" });
    rec.class(&class);
    rec.nontrivial(crate::engine::hash_json(&serde_json::to_value(c).unwrap()));
    if rec.wants_sample(&class) {
        rec.sample(&class, || serde_json::json!({"case": c, "score": score, "pair_terms": sum.pairs}));
    }
    Ok(())
}

// ------------------------------------------------------------------------------------------------
// golden: structures written by the pinned version, re-read from their stored text

fn golden_judge(e: &crate::golden::GoldenEntry, rec: &Rec, ctx: &Ctx) -> Result<(), String> {
    use packing::traits::State;
    let c = &e.spec;
    let state = match serde_json::from_str::<packing::PotentialState<LJShape2>>(&e.text) {
        Ok(s) => s,
        Err(_) => {
            rec.class("unreadable");
            return Ok(());
        }
    };
    // the potential the file describes is the documented one for the requested shape
    let shape = lj_shape(&c.shape).ok_or("not an LJ shape")?;
    let uncut = shape.items.iter().any(|a| a.cutoff.is_none());
    let rc = shape.items.iter().map(|a| a.cutoff.unwrap_or(0.)).fold(0., f64::max);
    let rho = if uncut { 30.0 } else { rc + 2. * mol_radius(&shape) + 1e-9 };
    let lat = c.lattice();
    let copies = c.copies();
    if PI * rho * rho / lat.area() * copies.len() as f64 > 2.0e4 {
        rec.class("skipped-work-bound");
        return Ok(());
    }
    let score = state.score().ok_or("PotentialState::score returned None for a stored structure")?;
    let (judged, sum) = judge_copies(&shape, &lat, &copies, &c.describe(), score, uncut, rho, ctx, rec, "stored structure")?;
    if !judged {
        rec.class("skipped");
        return Ok(());
    }
    rec.class(&format!("{}sites/{}", c.sites.len(), if uncut { "circle-uncut" } else { "trimer-cut" }));
    if sum.nontrivial {
        rec.nontrivial(crate::engine::hash_json(&serde_json::to_value(c).unwrap()));
    }
    Ok(())
}

pub fn parts() -> Vec<PartDef> {
    vec![part("states", 600_000, 12_000_000, strat, oracle), part("multi-site", 100_000, 3_000_000, multi_strat, multi_oracle), crate::golden::golden_part("golden", "lj.json", golden_judge)]
}

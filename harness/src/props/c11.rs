//! C11 — output is faithful: JSON round-trips and the SVG shows the same structure.

use std::f64::consts::PI;

use nalgebra::Matrix3;
use packing::traits::{State, ToSVG};
use proptest::prelude::*;
use serde::de::DeserializeOwned;
use serde::{Deserialize, Serialize};
use serde_json::Value;

use crate::cli::{self, CliArgs, CliShape};
use crate::engine::{hash_json, part, Ctx, PartDef, Rec};
use crate::gen::{line_shape_spec, mixf, mol_shape_spec};
use crate::geom::{self, Lattice};
use crate::statejson::{self, Params, ShapeSpec};

pub const TITLE: &str = "Output is faithful: JSON round-trips and the SVG shows the same structure";
pub const RULE: &str = "part roundtrip: states of both kinds, all groups and shapes, built with parameters from {in-range mixtures; cell parameters with arbitrary mantissa bits inside length 0.3..100, ratio 0.05..3, angle 0.05..pi-0.05; site parameters from raw finite f64 bit patterns, 17-significant-digit values, subnormals, +-0, the largest double}; oracle: s' = from_str(to_string(s)) re-serialises byte-identically, every number of the JSON tree is bit-identical (nothing missing or added), the parameters held in memory (read through the basis handles, not the serialiser) are bit-identical, score() and relative_positions() are bit-identical. part svg: in-range states; every <use href=#mol transform=matrix(a b c d e f)> of as_svg() is parsed and the multiset of matrices must equal, each exactly once, the harness's own Cartesian placements (ITA table, own lattice) and their 8 nearest lattice translates (rel 1e-12), and the 9 cell outlines the lattice translates of the identity. part cli: the .json written by the real binary re-reads to a state whose SVG is byte-identical to the written .svg and whose JSON re-serialises byte-identically; half of the runs write to a path whose .json/.svg already exist with 1..200000 bytes of earlier content (overwriting earlier results is the normal use). Non-trivial = a parameter whose shortest decimal form has 17 significant digits, or a group with a mirror/glide; distinct by hash of the case. part multi-site: states with 1..6 occupied sites (initialise) in the 7 built-in groups and in four user-built groups (p4, p4mm in a square cell, c1m1, a two-fold group in a cell of the hexagonal family): SVG multiset (when two copies coincide modulo the lattice only membership is checked) and the full JSON round-trip oracle.";

pub fn assumptions() -> Vec<&'static str> {
    vec!["states are built through serde_json::Value so that the values under test are exact before the first text serialisation", "shape coordinates inside the JSON are included in the bit-exact comparison"]
}

#[derive(Clone, Debug, Serialize, Deserialize)]
pub enum Kind {
    HardLine,
    HardMol,
    Lj,
}

#[derive(Clone, Debug, Serialize, Deserialize)]
pub struct RtCase {
    pub group: usize,
    pub kind: Kind,
    pub shape: ShapeSpec,
    /// raw bits of the six parameters (so that every finite double can be a case and shrinks towards 0)
    pub bits: [u64; 6],
}

fn kind_shape() -> BoxedStrategy<(Kind, ShapeSpec)> {
    prop_oneof![line_shape_spec().prop_map(|s| (Kind::HardLine, s)), mol_shape_spec().prop_map(|s| (Kind::HardMol, s)), mol_shape_spec().prop_map(|s| (Kind::Lj, s)),].boxed()
}

fn weird_f64() -> BoxedStrategy<f64> {
    prop_oneof![
        4 => (-1.0e3..1.0e3f64),
        3 => (0.0..1.0f64),
        2 => any::<u64>().prop_map(f64::from_bits).prop_filter("finite", |v| v.is_finite()),
        1 => (1u64..(1u64 << 52)).prop_map(f64::from_bits), // subnormals
        1 => Just(0.0),
        1 => Just(-0.0),
        1 => (1u64..1000).prop_map(|k| 0.1 * k as f64 + 1e-17),
        1 => Just(0.1 + 0.2),
        1 => Just(5e-324),
        1 => Just(1.7976931348623157e308),
    ]
    .boxed()
}

fn rt_strat(_: &Ctx) -> BoxedStrategy<RtCase> {
    let in_range = (mixf(0.5, 60., vec![8.0]), mixf(0.1, 1., vec![1.0]), mixf(PI / 6., PI / 2., vec![PI / 2.]), mixf(-0.5, 0.5, vec![0.]), mixf(-0.5, 0.5, vec![0.]), mixf(0., 2. * PI, vec![0.])).prop_map(|(a, b, c, d, e, f)| [a, b, c, d, e, f]);
    // cell parameters: every mantissa pattern, but a cell that is not degenerate (score() on a cell of vanishing
    // height has no bound on the images to visit); site parameters: every finite double
    let full_mantissa = |lo: f64, hi: f64| (lo..hi, any::<u64>()).prop_map(move |(v, m)| {
        let bits = (v.to_bits() & !0xFFFF) | (m & 0xFFFF);
        let w = f64::from_bits(bits);
        if w >= lo && w <= hi { w } else { v }
    });
    let weird = (full_mantissa(0.3, 100.), full_mantissa(0.05, 3.), full_mantissa(0.05, PI - 0.05), weird_f64(), weird_f64(), weird_f64()).prop_map(|(a, b, c, d, e, f)| [a, b, c, d, e, f]);
    (0usize..7, kind_shape(), prop_oneof![2 => in_range, 1 => weird]).prop_map(|(group, (kind, shape), v)| RtCase { group, kind, shape, bits: [v[0].to_bits(), v[1].to_bits(), v[2].to_bits(), v[3].to_bits(), v[4].to_bits(), v[5].to_bits()] }).boxed()
}

fn params_of_bits(b: &[u64; 6]) -> Params {
    Params { length: f64::from_bits(b[0]), ratio: f64::from_bits(b[1]), angle: f64::from_bits(b[2]), x: f64::from_bits(b[3]), y: f64::from_bits(b[4]), phi: f64::from_bits(b[5]) }
}

/// first difference between two JSON trees, numbers compared bit for bit
fn diff(a: &Value, b: &Value, path: &str) -> Option<String> {
    match (a, b) {
        (Value::Number(x), Value::Number(y)) => {
            let same = match (x.as_u64(), y.as_u64(), x.as_i64(), y.as_i64()) {
                (Some(p), Some(q), _, _) => p == q,
                (_, _, Some(p), Some(q)) => p == q,
                _ => match (x.as_f64(), y.as_f64()) {
                    (Some(p), Some(q)) => p.to_bits() == q.to_bits(),
                    _ => false,
                },
            };
            if same {
                None
            } else {
                Some(format!("{}: {} became {}", path, x, y))
            }
        }
        (Value::Object(x), Value::Object(y)) => {
            for (k, v) in x.iter() {
                match y.get(k) {
                    None => return Some(format!("{}.{} is missing after the round trip", path, k)),
                    Some(w) => {
                        if let Some(d) = diff(v, w, &format!("{}.{}", path, k)) {
                            return Some(d);
                        }
                    }
                }
            }
            for k in y.keys() {
                if !x.contains_key(k) {
                    return Some(format!("{}.{} appeared after the round trip", path, k));
                }
            }
            None
        }
        (Value::Array(x), Value::Array(y)) => {
            if x.len() != y.len() {
                return Some(format!("{}: array length {} became {}", path, x.len(), y.len()));
            }
            for (i, (v, w)) in x.iter().zip(y.iter()).enumerate() {
                if let Some(d) = diff(v, w, &format!("{}[{}]", path, i)) {
                    return Some(d);
                }
            }
            None
        }
        _ => {
            if a == b {
                None
            } else {
                Some(format!("{}: {} became {}", path, a, b))
            }
        }
    }
}

fn seventeen_digits(v: f64) -> bool {
    // the shortest round-tripping decimal (what `{}` prints) has 17 significant digits
    let s = format!("{:e}", v);
    let mant = s.split('e').next().unwrap_or("");
    mant.chars().filter(|c| c.is_ascii_digit()).count() >= 17
}

fn positions_bits<I: Iterator<Item = packing::Transform2>>(it: I) -> Vec<u64> {
    let mut v = vec![];
    for t in it {
        let m: Matrix3<f64> = t.into();
        for r in 0..3 {
            for c in 0..3 {
                v.push(m[(r, c)].to_bits());
            }
        }
    }
    v
}

trait Positions {
    fn pos_bits(&self) -> Vec<u64>;
}
impl Positions for packing::PackedState<packing::LineShape> {
    fn pos_bits(&self) -> Vec<u64> {
        positions_bits(self.relative_positions())
    }
}
impl Positions for packing::PackedState<packing::MolecularShape2> {
    fn pos_bits(&self) -> Vec<u64> {
        positions_bits(self.relative_positions())
    }
}
impl Positions for packing::PotentialState<packing::LJShape2> {
    fn pos_bits(&self) -> Vec<u64> {
        positions_bits(self.relative_positions())
    }
}

fn roundtrip<S: State + Serialize + DeserializeOwned + Positions>(template: S, p: &Params) -> Result<(), String> {
    let s: S = statejson::with_params(&template, p)?;
    roundtrip_state(s)
}

fn roundtrip_state<S: State + Serialize + DeserializeOwned + Positions>(s: S) -> Result<(), String> {
    let v1 = serde_json::to_value(&s).map_err(|e| e.to_string())?;
    let text1 = serde_json::to_string(&s).map_err(|e| e.to_string())?;
    let s2: S = serde_json::from_str(&text1).map_err(|e| format!("the state's own JSON does not read back: {} (text: {})", e, &text1[..text1.len().min(300)]))?;
    let v2 = serde_json::to_value(&s2).map_err(|e| e.to_string())?;
    if let Some(d) = diff(&v1, &v2, "state") {
        return Err(format!("JSON round trip changed a value: {}", d));
    }
    // the parameters held in memory, read through the basis handles (independent of the serialiser)
    let (m1, m2) = (crate::probe::params_of_state(&s), crate::probe::params_of_state(&s2));
    if m1.len() != m2.len() || m1.iter().zip(m2.iter()).any(|(a, b)| a.to_bits() != b.to_bits()) {
        return Err(format!("the state read back holds parameters {:?}, the state that was written holds {:?}", m2, m1));
    }
    let text2 = serde_json::to_string(&s2).map_err(|e| e.to_string())?;
    if text1 != text2 {
        return Err("re-serialisation after the round trip differs byte-wise".to_string());
    }
    let (a, b) = (s.score(), s2.score());
    let same_score = match (a, b) {
        (None, None) => true,
        (Some(x), Some(y)) => x.to_bits() == y.to_bits() || (x.is_nan() && y.is_nan()),
        _ => false,
    };
    if !same_score {
        return Err(format!("score changed over the round trip: {:?} -> {:?}", a, b));
    }
    if s.pos_bits() != s2.pos_bits() {
        return Err("relative_positions() changed over the round trip".to_string());
    }
    Ok(())
}

fn rt_oracle(c: &RtCase, rec: &Rec, ctx: &Ctx) -> Result<(), String> {
    let wg = statejson::wg(c.group);
    let p = params_of_bits(&c.bits);
    rec.eval(1);
    let res = match c.kind {
        Kind::HardLine => roundtrip(packing::PackedState::from_group(statejson::line_shape(&c.shape).ok_or("shape")?, &wg).map_err(|e| e.to_string())?, &p),
        Kind::HardMol => roundtrip(packing::PackedState::from_group(statejson::mol_shape(&c.shape).ok_or("shape")?, &wg).map_err(|e| e.to_string())?, &p),
        Kind::Lj => roundtrip(packing::PotentialState::from_group(statejson::lj_shape(&c.shape).ok_or("shape")?, &wg).map_err(|e| e.to_string())?, &p),
    };
    if let Err(msg) = res {
        if msg.starts_with("JSON round trip changed a value") && ctx.known.listed("C11", "serde-json-float-parse") {
            rec.known("serde-json-float-parse", || msg.clone());
        } else {
            return Err(msg);
        }
    }
    let vals = [p.length, p.ratio, p.angle, p.x, p.y, p.phi];
    let nt = vals.iter().any(|v| seventeen_digits(*v));
    let class = format!("roundtrip/{:?}{}", c.kind, if nt { "/17-digit-parameter" } else { "" });
    rec.class(&class);
    if nt {
        rec.nontrivial(hash_json(&serde_json::to_value(c).unwrap()));
    }
    if rec.wants_sample(&class) {
        rec.sample(&class, || serde_json::json!({"case": c, "params": vals.to_vec()}));
    }
    Ok(())
}

// ------------------------------------------------------------------------------------------------

#[derive(Clone, Debug, Serialize, Deserialize)]
pub struct SvgCase {
    pub group: usize,
    pub kind: Kind,
    pub shape: ShapeSpec,
    pub p: Params,
}

fn svg_strat(_: &Ctx) -> BoxedStrategy<SvgCase> {
    (0usize..7, kind_shape())
        .prop_flat_map(|(group, (kind, shape))| {
            let angle = if crate::gen::is_oblique(group) { mixf(PI / 6., PI / 2., vec![PI / 2., PI / 3.]) } else { Just(PI / 2.).boxed() };
            (Just(group), Just(kind), Just(shape), mixf(0.5, 60., vec![8.0]), mixf(0.1, 1., vec![1.0]), angle, mixf(-0.5, 0.5, vec![0.]), mixf(-0.5, 0.5, vec![0.]), mixf(0., 2. * PI, vec![0., PI]))
        })
        .prop_map(|(group, kind, shape, length, ratio, angle, x, y, phi)| SvgCase { group, kind, shape, p: Params { length, ratio, angle, x, y, phi } })
        .boxed()
}

/// all <use .../> elements as (href, six matrix numbers)
pub fn parse_uses(svg: &str) -> Result<Vec<(String, [f64; 6])>, String> {
    let mut out = vec![];
    let mut rest = svg;
    while let Some(pos) = rest.find("<use") {
        let tail = &rest[pos..];
        let end = tail.find('>').ok_or("unterminated <use")?;
        let el = &tail[..end];
        let attr = |name: &str| -> Option<String> {
            let key = format!("{}=\"", name);
            let i = el.find(&key)?;
            let r = &el[i + key.len()..];
            let j = r.find('"')?;
            Some(r[..j].to_string())
        };
        let href = attr("href").ok_or_else(|| format!("<use> without href: {}", el))?;
        let tr = attr("transform").ok_or_else(|| format!("<use> without transform: {}", el))?;
        let inner = tr.strip_prefix("matrix(").and_then(|t| t.strip_suffix(")")).ok_or_else(|| format!("transform is not matrix(...): {}", tr))?;
        let nums: Vec<f64> = inner.split(|c: char| c == ' ' || c == ',').filter(|s| !s.is_empty()).map(|s| s.parse::<f64>().map_err(|e| format!("bad number {} in {}: {}", s, tr, e))).collect::<Result<_, _>>()?;
        if nums.len() != 6 {
            return Err(format!("matrix() with {} numbers: {}", nums.len(), tr));
        }
        out.push((href, [nums[0], nums[1], nums[2], nums[3], nums[4], nums[5]]));
        rest = &tail[end..];
    }
    Ok(out)
}

pub fn check_svg(svg: &str, group: usize, p: &Params) -> Result<(), String> {
    let g = geom::group(group);
    let lat = Lattice::from_params(p.length, p.ratio, p.angle);
    let frac = geom::site_copies_fractional(&g, p.x, p.y, p.phi);
    check_svg_copies(svg, &lat, &frac)
}

/// the same for any list of fractional placements (several occupied sites, user-built groups)
pub fn check_svg_copies(svg: &str, lat: &Lattice, frac: &[geom::Aff]) -> Result<(), String> {
    let uses = parse_uses(svg)?;
    let copies: Vec<geom::Aff> = frac.iter().map(|a| geom::Aff { l: a.l, t: lat.to_cart(a.t) }).collect();
    let a = lat.va();
    let b = lat.vb();
    let scale = lat.a + lat.b;
    let minv = lat.m().inv();
    if uses.iter().any(|(h, _)| h != "#mol" && h != "#cell") {
        return Err("the SVG uses an element other than #mol and #cell".to_string());
    }
    // cell outlines: the 9 lattice translates of the identity, each once
    {
        let got: Vec<[f64; 6]> = uses.iter().filter(|(h, _)| h == "#cell").map(|(_, m)| *m).collect();
        if got.len() != 9 {
            return Err(format!("the SVG draws the cell {} times, the cell and its 8 neighbours need 9", got.len()));
        }
        let mut seen = [[false; 3]; 3];
        for m in got.iter() {
            if !((m[0] - 1.).abs() <= 1e-12 && m[1].abs() <= 1e-12 && m[2].abs() <= 1e-12 && (m[3] - 1.).abs() <= 1e-12) {
                return Err(format!("a cell outline is drawn with the linear part ({} {} {} {})", m[0], m[1], m[2], m[3]));
            }
            let f = minv.apply(crate::geom::P::new(m[4], m[5]));
            let (n, mm) = (f.x.round(), f.y.round());
            let t = a.scale(n).add(b.scale(mm));
            if !((t.x - m[4]).abs() <= 1e-12 * (scale + m[4].abs()) && (t.y - m[5]).abs() <= 1e-12 * (scale + m[5].abs())) || n.abs() > 1. || mm.abs() > 1. {
                return Err(format!("a cell outline is drawn at ({}, {}), not a lattice translate within one cell", m[4], m[5]));
            }
            let (i, j) = ((n + 1.) as usize, (mm + 1.) as usize);
            if seen[i][j] {
                return Err(format!("the cell outline at lattice index ({}, {}) is drawn twice", n, mm));
            }
            seen[i][j] = true;
        }
    }
    // molecules: every placement is copy k translated by n A + m B; per copy the indices must form one 3x3 block.
    // The block is centred on the copy's own cell; when a fractional coordinate of the copy is within 1e-9 of a
    // cell face the neighbouring cell is an equally valid home (the wrap decides by the last bit).
    let got: Vec<[f64; 6]> = uses.iter().filter(|(h, _)| h == "#mol").map(|(_, m)| *m).collect();
    if got.len() != 9 * copies.len() {
        return Err(format!("the SVG places the shape {} times, {} copies and their 8 nearest lattice images need {}", got.len(), copies.len(), 9 * copies.len()));
    }
    // two copies that are lattice translates of each other (sites that coincide modulo the lattice) cannot be told apart
    // in the drawing: then only membership is checked, not the per-copy 3x3 blocks
    let mut ambiguous = false;
    for i in 0..frac.len() {
        for j in (i + 1)..frac.len() {
            if frac[i].l.max_abs_diff(frac[j].l) <= 1e-9 && geom::circ_dist(frac[i].t.x - frac[j].t.x, 0.) <= 1e-6 && geom::circ_dist(frac[i].t.y - frac[j].t.y, 0.) <= 1e-6 {
                ambiguous = true;
            }
        }
    }
    if ambiguous {
        for m in got.iter() {
            let hit = copies.iter().any(|c| {
                if !((m[0] - c.l.a).abs() <= 1e-12 && (m[1] - c.l.c).abs() <= 1e-12 && (m[2] - c.l.b).abs() <= 1e-12 && (m[3] - c.l.d).abs() <= 1e-12) {
                    return false;
                }
                let d = crate::geom::P::new(m[4] - c.t.x, m[5] - c.t.y);
                let f = minv.apply(d);
                let (n, mm) = (f.x.round(), f.y.round());
                let t = a.scale(n).add(b.scale(mm));
                let tol = 1e-12 * (scale * (1. + n.abs() + mm.abs()) + m[4].abs() + m[5].abs());
                (t.x - d.x).abs() <= tol && (t.y - d.y).abs() <= tol && n.abs() <= 2. && mm.abs() <= 2.
            });
            if !hit {
                return Err(format!("<use href=#mol transform=matrix({} {} {} {} {} {})> is not one of the state's Cartesian placements translated by a lattice vector of its neighbourhood", m[0], m[1], m[2], m[3], m[4], m[5]));
            }
        }
        return Ok(());
    }
    let mut blocks: Vec<std::collections::BTreeSet<(i64, i64)>> = vec![Default::default(); copies.len()];
    for m in got.iter() {
        let mut placed = false;
        for (k, c) in copies.iter().enumerate() {
            if !((m[0] - c.l.a).abs() <= 1e-12 && (m[1] - c.l.c).abs() <= 1e-12 && (m[2] - c.l.b).abs() <= 1e-12 && (m[3] - c.l.d).abs() <= 1e-12) {
                continue;
            }
            let d = crate::geom::P::new(m[4] - c.t.x, m[5] - c.t.y);
            let f = minv.apply(d);
            let (n, mm) = (f.x.round(), f.y.round());
            let t = a.scale(n).add(b.scale(mm));
            let tol = 1e-12 * (scale * (1. + n.abs() + mm.abs()) + m[4].abs() + m[5].abs());
            if (t.x - d.x).abs() <= tol && (t.y - d.y).abs() <= tol && n.abs() <= 2. && mm.abs() <= 2. && !blocks[k].contains(&(n as i64, mm as i64)) {
                blocks[k].insert((n as i64, mm as i64));
                placed = true;
                break;
            }
        }
        if !placed {
            return Err(format!("<use href=#mol transform=matrix({} {} {} {} {} {})> is not one of the state's Cartesian placements translated by a lattice vector of its neighbourhood (or is drawn twice)", m[0], m[1], m[2], m[3], m[4], m[5]));
        }
    }
    for (k, bl) in blocks.iter().enumerate() {
        if bl.len() != 9 {
            return Err(format!("copy {} is drawn {} times instead of 9", k, bl.len()));
        }
        let n0 = bl.iter().map(|x| x.0).min().unwrap() + 1;
        let m0 = bl.iter().map(|x| x.1).min().unwrap() + 1;
        for dn in -1..=1 {
            for dm in -1..=1 {
                if !bl.contains(&(n0 + dn, m0 + dm)) {
                    return Err(format!("the lattice images drawn for copy {} do not form the 3x3 neighbourhood of one cell: {:?}", k, bl));
                }
            }
        }
        let near_x = geom::circ_dist(frac[k].t.x, 0.5) <= 1e-9;
        let near_y = geom::circ_dist(frac[k].t.y, 0.5) <= 1e-9;
        if (n0 != 0 && !(near_x && n0.abs() == 1)) || (m0 != 0 && !(near_y && m0.abs() == 1)) {
            return Err(format!("copy {} and its images are drawn around the cell ({}, {}) instead of the copy's own cell", k, n0, m0));
        }
    }
    Ok(())
}

fn svg_oracle(c: &SvgCase, rec: &Rec, _: &Ctx) -> Result<(), String> {
    let wg = statejson::wg(c.group);
    rec.eval(1);
    let svg = match c.kind {
        Kind::HardLine => statejson::with_params(&packing::PackedState::from_group(statejson::line_shape(&c.shape).ok_or("shape")?, &wg).map_err(|e| e.to_string())?, &c.p)?.as_svg().to_string(),
        Kind::HardMol => statejson::with_params(&packing::PackedState::from_group(statejson::mol_shape(&c.shape).ok_or("shape")?, &wg).map_err(|e| e.to_string())?, &c.p)?.as_svg().to_string(),
        Kind::Lj => statejson::with_params(&packing::PotentialState::from_group(statejson::lj_shape(&c.shape).ok_or("shape")?, &wg).map_err(|e| e.to_string())?, &c.p)?.as_svg().to_string(),
    };
    check_svg(&svg, c.group, &c.p)?;
    let mirror = c.group >= 2;
    let class = format!("svg/{:?}/{}", c.kind, geom::GROUP_NAMES[c.group]);
    rec.class(&class);
    if mirror {
        rec.nontrivial(hash_json(&serde_json::to_value(c).unwrap()));
    }
    if rec.wants_sample(&class) {
        rec.sample(&class, || serde_json::to_value(c).unwrap());
    }
    Ok(())
}

// ------------------------------------------------------------------------------------------------

#[derive(Clone, Debug, Serialize, Deserialize)]
pub struct FileCase {
    pub args: CliArgs,
    /// bytes already present in <outfile>.json and <outfile>.svg before the run (results of an earlier run are overwritten
    /// in normal use of the tool; 0 = fresh path)
    #[serde(default)]
    pub prior_len: usize,
}

fn file_strat(_: &Ctx) -> BoxedStrategy<FileCase> {
    let shape = prop_oneof![
        (3i64..=8).prop_map(|s| CliShape::Polygon { sides: Some(s) }),
        Just(CliShape::Circle),
        (0.3..1.2f64, 30.0..180.0f64, 0.4..1.0f64).prop_map(|(distance, angle, radius)| CliShape::Trimer { distance: Some(distance), angle: Some(angle), radius: Some(radius) }),
    ];
    let prior = prop_oneof![2 => Just(0usize), 1 => 1usize..200, 1 => 20_000usize..200_000];
    (0usize..7, shape, any::<bool>(), 1i64..=3, prop_oneof![Just(50i64), Just(200), Just(400)], prop_oneof![Just(0.01f64), Just(0.1), Just(0.5)], prior)
        .prop_map(|(g, shape, lj, replications, steps, max_step, prior_len)| {
            let lj = lj && !matches!(shape, CliShape::Polygon { .. });
            FileCase {
                args: CliArgs {
                    group: geom::GROUP_NAMES[g].to_string(),
                    shape,
                    potential: Some(if lj { "LJ".to_string() } else { "Hard".to_string() }),
                    replications: Some(replications),
                    steps: Some(steps),
                    inner_steps: Some(100),
                    kt_start: Some(0.1),
                    kt_finish: None,
                    kt_ratio: Some(0.2),
                    max_step_size: Some(max_step),
                    convergence: None,
                    verbosity: 0,
                    start_config: None,
                },
                prior_len,
            }
        })
        .boxed()
}

fn file_oracle(c: &FileCase, rec: &Rec, ctx: &Ctx) -> Result<(), String> {
    let out = {
        let dir = cli::scratch_dir(ctx);
        let outfile = dir.join("out");
        if c.prior_len > 0 {
            // what an earlier, longer result at the same path leaves behind
            let filler = "Z".repeat(c.prior_len);
            std::fs::write(outfile.with_extension("json"), &filler).map_err(|e| e.to_string())?;
            std::fs::write(outfile.with_extension("svg"), &filler).map_err(|e| e.to_string())?;
        }
        let r = cli::run(ctx, &c.args.to_argv(&outfile), &outfile, Some(2), 120);
        let _ = std::fs::remove_dir_all(&dir);
        r?
    };
    rec.eval(1);
    if out.timed_out {
        crate::mark_broken();
        return Ok(());
    }
    if out.status != Some(0) {
        // not this property's subject (C20 judges exits); count and move on
        rec.class("cli/nonzero-exit-skipped");
        return Ok(());
    }
    let json = out.json.ok_or("exit 0 without a .json file")?;
    let svg_file = out.svg.ok_or("exit 0 without a .svg file")?;
    let lj = c.args.potential.as_deref() == Some("LJ");
    let group = geom::group_index(&c.args.group).ok_or("group")?;
    macro_rules! reread {
        ($t:ty) => {{
            let s: $t = serde_json::from_str(&json).map_err(|e| format!("the written .json does not read back: {}", e))?;
            let again = serde_json::to_string(&s).map_err(|e| e.to_string())?;
            (s.as_svg().to_string(), again, statejson::params_of(&s))
        }};
    }
    let (svg_again, json_again, params) = match (&c.args.shape, lj) {
        (CliShape::Polygon { .. }, _) => reread!(packing::PackedState<packing::LineShape>),
        (_, false) => reread!(packing::PackedState<packing::MolecularShape2>),
        (_, true) => reread!(packing::PotentialState<packing::LJShape2>),
    };
    if json_again != json {
        let known = ctx.known.listed("C11", "serde-json-float-parse");
        if known {
            rec.known("serde-json-float-parse", || "the .json written by the CLI does not re-serialise byte-identically after reading it back".to_string());
        } else {
            return Err(format!("the .json written by `packing {}` does not re-serialise byte-identically after reading it back", c.args.to_argv(std::path::Path::new("out")).join(" ")));
        }
    } else if svg_again.trim_end() != svg_file.trim_end() {
        return Err("the .svg written next to the .json is not the SVG of the structure in the .json".to_string());
    }
    // and the written SVG shows the harness's own placements of the written parameters
    if let Some(p) = params {
        if let Err(e) = check_svg(&svg_file, group, &p) {
            if json_again == json {
                return Err(format!("written .svg: {}", e));
            }
        }
    }
    let class = format!("cli/{}/{}{}", if lj { "lj" } else { "hard" }, c.args.group, if c.prior_len > 0 { "/over-existing-files" } else { "" });
    rec.class(&class);
    if group >= 2 {
        rec.nontrivial(hash_json(&serde_json::to_value(c).unwrap()));
    }
    if rec.wants_sample(&class) {
        rec.sample(&class, || serde_json::to_value(c).unwrap());
    }
    Ok(())
}

// ------------------------------------------------------------------------------------------------
// multi-site: states with 1..6 occupied sites (as `initialise` builds them), in the 7 built-in groups and in user-built
// groups of the square system (p4, p4mm) and a centred rectangular one (c1m1); JSON round trip and SVG

#[derive(Clone, Debug, Serialize, Deserialize)]
pub struct MultiCase {
    pub spec: crate::multisite::MultiSpec,
    pub kind: Kind,
    /// Some(i): the i-th user-built group instead of spec.group
    pub custom: Option<usize>,
}

fn multi_strat(_: &Ctx) -> BoxedStrategy<MultiCase> {
    (kind_shape(), prop_oneof![3 => Just(None), 1 => (0usize..4).prop_map(Some)])
        .prop_flat_map(|((kind, shape), custom)| (crate::multisite::multi_strat(Just(shape).boxed(), 0.02, 0.9, 1, 6), Just(kind), Just(custom)))
        .prop_map(|(mut spec, kind, custom)| {
            if let Some(i) = custom {
                // a cell of the custom group's family (square for p4 / p4mm, rectangular for c1m1)
                match i % 4 {
                    0 | 1 => {
                        spec.angle = PI / 2.;
                        spec.ratio = 1.;
                    }
                    3 => {
                        spec.angle = PI / 3.;
                        spec.ratio = 1.;
                    }
                    _ => spec.angle = PI / 2.,
                }
            }
            MultiCase { spec, kind, custom }
        })
        .boxed()
}

fn multi_oracle(c: &MultiCase, rec: &Rec, ctx: &Ctx) -> Result<(), String> {
    rec.eval(1);
    let (wg, ops) = match c.custom {
        Some(i) => crate::multisite::custom_group(i),
        None => (statejson::wg(c.spec.group), geom::group(c.spec.group).ops.clone()),
    };
    let lat = c.spec.lattice();
    let frac = crate::multisite::copies_fractional(&ops, &c.spec.sites);
    macro_rules! both {
        ($state:expr) => {{
            let st = $state;
            let shown = st.as_svg().to_string();
            check_svg_copies(&shown, &lat, &frac).map_err(|e| format!("SVG of a state with {} occupied sites in {}: {}", c.spec.sites.len(), wg.name, e))?;
            roundtrip_state(st)
        }};
    }
    let res = match c.kind {
        Kind::HardLine => both!(crate::multisite::packed_line_in(&wg, &c.spec)?),
        Kind::HardMol => both!(crate::multisite::packed_mol_in(&wg, &c.spec)?),
        Kind::Lj => both!(crate::multisite::potential_in(&wg, &c.spec)?),
    };
    if let Err(msg) = res {
        if msg.starts_with("JSON round trip changed a value") && ctx.known.listed("C11", "serde-json-float-parse") {
            rec.known("serde-json-float-parse", || msg.clone());
        } else {
            return Err(format!("{} (state with {} occupied sites in {})", msg, c.spec.sites.len(), wg.name));
        }
    }
    let class = format!("{:?}/{}/{}sites", c.kind, wg.name, c.spec.sites.len());
    rec.class(&class);
    if c.spec.sites.len() >= 2 || c.custom.is_some() {
        rec.nontrivial(hash_json(&serde_json::to_value(c).unwrap()));
    }
    if rec.wants_sample(&class) {
        rec.sample(&class, || serde_json::to_value(c).unwrap());
    }
    Ok(())
}

pub fn parts() -> Vec<PartDef> {
    vec![part("roundtrip", 1_000_000, 20_000_000, rt_strat, rt_oracle), part("svg", 400_000, 8_000_000, svg_strat, svg_oracle), part("cli", 320, 6_000, file_strat, file_oracle), part("multi-site", 50_000, 1_500_000, multi_strat, multi_oracle)]
}

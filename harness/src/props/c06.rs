//! C06 — a rejected move leaves no trace; the result is the last accepted state.

use packing::traits::State;
use proptest::prelude::*;
use serde::{Deserialize, Serialize};

use crate::engine::{hash_json, part, Ctx, PartDef, Rec};
use crate::opt::{run_script, same_bits, steps_inner, ForcedPolicy, OptCfg};
use crate::probe::{Decision, Probe};
use crate::statejson::{self, ShapeSpec};

pub const TITLE: &str = "A rejected move leaves no trace; the result is the last accepted state";
pub const RULE: &str = "part scripted: synthetic states with 2..8 parameters, bounds either so narrow that clamping is frequent (range 1, moves up to +-range/2) or wide (never clamped), optionally one parameter starting outside its bounds or one parameter with no room to move (min = max), 1..20 inner loops, any kT, step sizes from a few units in the last place (1e-17..1e-13 of the range) to 2.5 ranges, with and without a convergence threshold, and a cyclic adversarial script of forced outcomes (accept by 'better'/'equal', reject by 'undefined', 'worse' = reject at kT=0 and either at kT>0). History invariants: (1) every proposal differs in at most one coordinate, all others bit-identical, from some state the optimiser can be in, where after each step that state is either exactly the proposal or exactly the previous state whatever the decision was (a proposal without a score can only be followed by the previous state); (2) the parameters of the returned state are one of the states the history allows, and when every interior forced decision was honoured they are bit-for-bit the last accepted proposal (or the input if none); (3) the final validity evaluation sees the returned parameters. part real: the same decision-agnostic invariants on real hard and Lennard-Jones states at kT=0 and kT>0. Non-trivial = the history contains accept, reject, reject on one coordinate (the stale-backup pattern) or a clamped proposal that is rejected; distinct by hash of the case.";

pub fn assumptions() -> Vec<&'static str> {
    vec![
        "one score() evaluation per proposal, one before the run, at most one after it",
        "the decision-agnostic invariants never depend on the acceptance rule; the last-accepted-state clause uses only forced outcomes (better/equal accepted, undefined rejected, worse rejected at kT=0) and only when all interior decisions were honoured, so a pure acceptance-rule defect is left to C07",
    ]
}

#[derive(Clone, Debug, Serialize, Deserialize)]
pub struct ScriptCase {
    pub cfg: OptCfg,
    pub n: usize,
    pub wide: bool,
    pub decisions: Vec<Decision>,
    /// Some((i, offset)): parameter i starts outside its bounds by `offset` ranges (a state read from a file may)
    pub outside: Option<(u16, f64)>,
    /// Some(i): parameter i has no room to move (min = max = its value), as a cell ratio that sits on 0.1 has
    #[serde(default)]
    pub fixed: Option<u16>,
    /// parameters that are driven by two basis handles each (a user-written state may hand out two handles on one value)
    #[serde(default)]
    pub twins: Vec<u16>,
}

fn any_cfg(max_steps: u64, max_loops: u64) -> BoxedStrategy<OptCfg> {
    (
        steps_inner(max_steps, max_loops),
        prop_oneof![2 => Just(0.), 2 => (-3.0..1.0f64).prop_map(|e| 10f64.powf(e))],
        prop_oneof![Just(None), Just(Some(0.)), Just(Some(1e-3)), Just(Some(0.1))],
        prop_oneof![Just(None), Just(Some(0.)), Just(Some(0.1)), Just(Some(0.5))],
        // the last class: moves of a few units in the last place (added for seeded change C06-5)
        prop_oneof![6 => (-3.0..0.0f64).prop_map(|e| 10f64.powf(e)), 3 => Just(1.0), 1 => Just(2.5), 2 => (-17.0..-13.0f64).prop_map(|e| 10f64.powf(e))],
        any::<u64>(),
        prop_oneof![3 => Just(None), 1 => Just(Some(0.)), 1 => Just(Some(1e-6)), 1 => Just(Some(1e3))],
    )
        .prop_map(|((steps, inner), kt_start, kt_finish, kt_ratio, max_step, seed, convergence)| OptCfg { steps, inner, kt_start, kt_finish, kt_ratio, max_step, convergence, seed })
        .boxed()
}

fn c06_decision() -> BoxedStrategy<Decision> {
    prop_oneof![
        3 => (-6.0..2.0f64).prop_map(|e| Decision::Better(10f64.powf(e))),
        1 => Just(Decision::Equal),
        3 => Just(Decision::Invalid),
        3 => (-6.0..2.0f64).prop_map(|e| Decision::Worse(10f64.powf(e))),
    ]
    .boxed()
}

fn script_strat(_: &Ctx) -> BoxedStrategy<ScriptCase> {
    (any_cfg(4000, 60), 2usize..=8, any::<bool>(), proptest::collection::vec(c06_decision(), 1..64), prop_oneof![5 => Just(None), 1 => (any::<u16>(), prop_oneof![0.01..1.0f64, -1.0..-0.01f64]).prop_map(Some)], prop_oneof![5 => Just(None), 1 => any::<u16>().prop_map(Some)], prop_oneof![4 => Just(vec![]), 1 => proptest::collection::vec(any::<u16>(), 1..3)])
        .prop_map(|(cfg, n, wide, decisions, outside, fixed, twins)| ScriptCase { cfg, n, wide, decisions, outside, fixed, twins })
        .boxed()
}

fn script_oracle(c: &ScriptCase, rec: &Rec, _: &Ctx) -> Result<(), String> {
    let (lo, hi) = if c.wide { (-1.0e6, 1.0e6) } else { (0., 1.) };
    let mut init = vec![0.5 * (lo + hi) + 0.25; c.n];
    let mut bounds = vec![(lo, hi); c.n];
    if let Some(i) = c.fixed {
        let i = crate::engine::idx(i, c.n);
        bounds[i] = (init[i], init[i]);
    }
    if let Some((i, off)) = c.outside {
        let i = crate::engine::idx(i, c.n);
        init[i] = if off > 0. { hi + off * (hi - lo) } else { lo + off * (hi - lo) };
    }
    let kt_zero = c.cfg.kt_start == 0.;
    let policy = ForcedPolicy { decisions: c.decisions.clone(), base: 1.0, proposals: c.cfg.proposals() };
    let twins: Vec<usize> = c.twins.iter().map(|t| crate::engine::idx(*t, c.n)).collect();
    let out = crate::opt::run_script_twins(&c.cfg, &init, &bounds, &twins, kt_zero, true, crate::probe::Mode::Agnostic, Box::new(policy));
    rec.eval(out.steps.len() as u64 + 1);
    if out.panicked.is_some() {
        rec.class("panicked-not-judged-here");
        return Ok(());
    }
    // (1) decision-agnostic consistency
    if let Some((k, msg)) = &out.shadow_inconsistency {
        return Err(format!("history invariant broken at call {}: {}", k, msg));
    }
    let ret = out.returned_params.clone().ok_or("no returned state")?;
    // (2a) the returned state is a state the history allows
    if !out.shadow_final.iter().any(|cand| same_bits(&cand.params, &ret)) {
        return Err(format!("the returned parameters {:?} are neither the last proposal nor the state before it {:?}", ret, out.shadow_final.iter().map(|c| c.params.clone()).collect::<Vec<_>>()));
    }
    // (3) the final validity call (last logged call when the run went to completion) saw the returned parameters
    let p = c.cfg.proposals() as usize;
    if out.steps.len() == p + 1 {
        let last = &out.steps[p];
        if !same_bits(&last.proposal, &ret) {
            return Err(format!("the final validity evaluation saw {:?} but the returned state holds {:?}", last.proposal, ret));
        }
    }
    // (2b) last accepted state, only when the forced decisions were honoured throughout
    if out.inconsistency.is_none() && out.final_cands.len() == 1 {
        if !same_bits(&out.final_cands[0].params, &ret) {
            return Err(format!(
                "the returned parameters {:?} are not those of the last accepted proposal {:?} (all {} interior forced decisions were honoured; the last step's outcome was forced)",
                ret,
                out.final_cands[0].params,
                out.steps.len()
            ));
        }
    }
    // non-triviality: A,R,R on one coordinate, or a clamped proposal rejected
    let mut last_two: Vec<Vec<bool>> = vec![vec![]; c.n];
    let mut arr = false;
    let mut clamp_rej = false;
    for st in out.steps.iter().take(p) {
        if let (Some(i), Some(o)) = (st.changed, st.outcome) {
            let h = &mut last_two[i];
            h.push(o);
            let l = h.len();
            if l >= 3 && h[l - 3] && !h[l - 2] && !h[l - 1] {
                arr = true;
            }
            if !o && (st.proposal[i] == lo || st.proposal[i] == hi) {
                clamp_rej = true;
            }
        }
    }
    let nt = arr || clamp_rej;
    let class = format!("scripted/{}{}{}{}", if c.wide { "wide" } else { "narrow" }, if kt_zero { "/kT=0" } else { "/kT>0" }, if arr { "/accept-reject-reject" } else { "" }, if clamp_rej { "/clamped-rejected" } else { "" });
    rec.class(&class);
    if nt {
        rec.nontrivial(hash_json(&serde_json::to_value(c).unwrap()));
    }
    if rec.wants_sample(&class) {
        rec.sample(&class, || serde_json::to_value(c).unwrap());
    }
    Ok(())
}

#[derive(Clone, Debug, Serialize, Deserialize)]
pub struct RealCase {
    pub cfg: OptCfg,
    pub group: usize,
    pub shape: ShapeSpec,
    pub lj: bool,
    #[serde(default)]
    pub warm: u64,
}

fn real_strat(_: &Ctx) -> BoxedStrategy<RealCase> {
    (any_cfg(2000, 10), 0usize..7, any::<bool>())
        .prop_flat_map(|(cfg, group, lj)| {
            let shape = if lj { crate::gen::mol_shape_spec() } else { prop_oneof![crate::gen::line_shape_spec(), crate::gen::mol_shape_spec()].boxed() };
            (Just(cfg), Just(group), shape, Just(lj), prop_oneof![Just(0u64), Just(2000u64), Just(6000u64)])
        })
        .prop_map(|(cfg, group, shape, lj, warm)| RealCase { cfg, group, shape, lj, warm })
        .boxed()
}

fn judge_real<S: State + Serialize + serde::de::DeserializeOwned>(state: S, cfg: &OptCfg, warm: u64, rec: &Rec) -> Result<Option<(usize, bool)>, String> {
    if !state.score().map(|s| s.is_finite()).unwrap_or(false) {
        return Ok(None);
    }
    let state = match crate::opt::warm_start(state, warm, cfg.seed ^ 0x5eed) {
        Ok(s) => s,
        Err(_) => return Ok(None),
    };
    if !state.score().map(|s| s.is_finite()).unwrap_or(false) {
        return Ok(None);
    }
    let probe = Probe::new(state, cfg.kt_start == 0.);
    let model = probe.model.clone();
    {
        let mut m = model.lock().unwrap();
        m.mode = crate::probe::Mode::Agnostic;
        m.keep_steps = true;
    }
    let cfg2 = cfg.clone();
    let res = std::panic::catch_unwind(std::panic::AssertUnwindSafe(move || {
        let out = cfg2.build().optimise_state(probe);
        crate::probe::params_of_state(&out)
    }));
    let ret = match res {
        Ok(p) => p,
        Err(_) => return Ok(None),
    };
    let mut m = model.lock().unwrap_or_else(|e| e.into_inner());
    let finals = m.final_candidates();
    m.finished = true;
    rec.eval(m.steps.len() as u64 + 1);
    if let Some((k, msg)) = &m.inconsistency {
        return Err(format!("real state: history invariant broken at call {}: {}", k, msg));
    }
    if !finals.iter().any(|c| same_bits(&c.params, &ret)) {
        return Err(format!("real state: the returned parameters {:?} are neither the last proposal nor the state before it", ret));
    }
    let p = cfg.proposals() as usize;
    if m.steps.len() == p + 1 && !same_bits(&m.steps[p].proposal, &ret) {
        return Err(format!("real state: the final validity evaluation saw {:?} but the returned state holds {:?}", m.steps[p].proposal, ret));
    }
    let rejections = m.steps.iter().filter(|s| s.outcome == Some(false)).count();
    let clamp = m.steps.iter().any(|s| s.outcome == Some(false) && s.changed.map(|i| s.proposal[i] == 0.5 || s.proposal[i] == -0.5 || s.proposal[i] == 0.).unwrap_or(false));
    Ok(Some((rejections, clamp)))
}

fn real_oracle(c: &RealCase, rec: &Rec, _: &Ctx) -> Result<(), String> {
    let wg = statejson::wg(c.group);
    let r = if c.lj {
        let shape = statejson::lj_shape(&c.shape).ok_or("shape")?;
        judge_real(packing::PotentialState::from_group(shape, &wg).map_err(|e| e.to_string())?, &c.cfg, c.warm, rec)?
    } else {
        match &c.shape {
            ShapeSpec::Polygon { .. } | ShapeSpec::Radial { .. } => {
                let shape = statejson::line_shape(&c.shape).ok_or("shape")?;
                judge_real(packing::PackedState::from_group(shape, &wg).map_err(|e| e.to_string())?, &c.cfg, c.warm, rec)?
            }
            _ => {
                let shape = statejson::mol_shape(&c.shape).ok_or("shape")?;
                judge_real(packing::PackedState::from_group(shape, &wg).map_err(|e| e.to_string())?, &c.cfg, c.warm, rec)?
            }
        }
    };
    match r {
        None => rec.class("real/skipped"),
        Some((rej, clamp)) => {
            let class = format!("real/{}{}{}", if c.lj { "lj" } else { "hard" }, if rej > 0 { "/with-rejections" } else { "" }, if clamp { "/clamped-rejected" } else { "" });
            rec.class(&class);
            if clamp || rej >= 3 {
                rec.nontrivial(hash_json(&serde_json::to_value(c).unwrap()));
            }
            if rec.wants_sample(&class) {
                rec.sample(&class, || serde_json::to_value(c).unwrap());
            }
        }
    }
    Ok(())
}

pub fn parts() -> Vec<PartDef> {
    vec![part("scripted", 20_000, 600_000, script_strat, script_oracle), part("real", 2_000, 60_000, real_strat, real_oracle)]
}

//! C14 — one lattice: Cartesian map, periodic images and cell area agree.

use std::f64::consts::PI;

use nalgebra::{Matrix3, Point2};
use packing::{Cell2, Transform2};
use proptest::prelude::*;
use proptest::sample::select;
use serde::{Deserialize, Serialize};
use serde_json::json;

use crate::engine::{hash_f64s, part, Ctx, PartDef, Rec};
use crate::geom::{Lattice, P};

pub const TITLE: &str = "One lattice: Cartesian map, periodic images and cell area agree";
pub const RULE: &str = "cases = (cell length log-uniform in [1e-3,1e3] (a quarter in 1e-12..1e-3 or 1e3..1e9), ratio in [0.05,2], angle in (0,pi) or a special value, any of the four families; a placement with arbitrary linear part and fractional position in [-3,3]^2 (a third of the coordinates of magnitude 1e-16..1 or exactly 0); shell count 0..6; zero flag), cells built by deserialising JSON. Oracle: M=[A B] with A=(a,0), B=(b cos t, b sin t) from the harness's own lattice; to_cartesian/_point/_isometry = M f (rel 1e-12) and additive/homogeneous; periodic_images as a multiset = {T+nA+mB : |n|,|m|<=k} minus the central one iff zero=false, each exactly once, linear part bit-identical; area = |A x B| from the harness lattice and from the code's own images of (1,0),(0,1); corners = M(+-1/2,+-1/2) as a set. A third of the cases evaluate a second, nearly identical cell (length, ratio, angle changed by 1e-15..1e-3) right after the first on the same thread and then the first again, each against the oracle for its own values. Non-trivial = angle != pi/2 and shells >= 2; distinct by the hash of all case numbers.";

pub fn assumptions() -> Vec<&'static str> {
    vec!["Cell2 is observed only through its public methods on cells obtained by serde deserialisation", "tolerance 1e-12 relative to |a f_x| + |b f_y| (a few ulps of the products involved)"]
}

#[derive(Clone, Debug, Serialize, Deserialize)]
pub struct CellCase {
    pub length: f64,
    pub ratio: f64,
    pub angle: f64,
    pub family: usize,
    pub lin: [f64; 4],
    pub f: [f64; 2],
    pub g: [f64; 2],
    pub scale: f64,
    pub shells: i64,
    pub zero: bool,
    /// a second cell evaluated right after this one (same thread): relative changes of length and ratio and an
    /// absolute change of the angle, each 0 or +-10^U(-15,-3); then this cell again
    #[serde(default)]
    pub twin: [f64; 3],
}

const FAMILIES: [&str; 4] = ["Monoclinic", "Orthorhombic", "Hexagonal", "Tetragonal"];

fn strat(_: &Ctx) -> BoxedStrategy<CellCase> {
    let angle = prop_oneof![
        6 => (0.01..(PI - 0.01)),
        1 => select(vec![PI / 2., PI / 3., PI / 6., 2. * PI / 3.]),
    ];
    let lin = prop_oneof![
        2 => proptest::array::uniform4(-2.0..2.0f64),
        1 => (0.0..(2. * PI), any::<bool>(), any::<bool>()).prop_map(|(p, mx, my)| {
            let (s, c) = p.sin_cos();
            let sx = if mx { -1. } else { 1. };
            let sy = if my { -1. } else { 1. };
            [sx * c, -sx * s, sy * s, sy * c]
        }),
    ];
    (
        prop_oneof![4 => (-3.0..3.0f64).prop_map(|e| 10f64.powf(e)), 1 => (-12.0..-3.0f64).prop_map(|e| 10f64.powf(e)), 1 => (3.0..9.0f64).prop_map(|e| 10f64.powf(e))],
        0.05..2.0f64,
        angle,
        0usize..4,
        lin,
        proptest::array::uniform2(prop_oneof![4 => -3.0..3.0f64, 1 => ((-16.0..0.0f64), any::<bool>()).prop_map(|(e, neg)| if neg { -(10f64.powf(e)) } else { 10f64.powf(e) }), 1 => Just(0.)]),
        proptest::array::uniform2(prop_oneof![4 => -3.0..3.0f64, 1 => ((-16.0..0.0f64), any::<bool>()).prop_map(|(e, neg)| if neg { -(10f64.powf(e)) } else { 10f64.powf(e) })]),
        -4.0..4.0f64,
        0i64..=6,
        any::<bool>(),
        prop_oneof![
            2 => Just([0.0f64; 3]),
            1 => proptest::array::uniform3(prop_oneof![1 => Just(0.0f64), 2 => ((-15.0..-3.0f64), any::<bool>()).prop_map(|(e, neg)| if neg { -(10f64.powf(e)) } else { 10f64.powf(e) })]),
        ],
    )
        .prop_map(|(length, ratio, angle, family, lin, f, g, scale, shells, zero, twin)| CellCase { length, ratio, angle, family, lin, f, g, scale, shells, zero, twin })
        .boxed()
}

pub fn make_cell(length: f64, ratio: f64, angle: f64, family: usize) -> Result<Cell2, String> {
    serde_json::from_value(json!({"length": length, "ratio": ratio, "angle": angle, "family": FAMILIES[family]})).map_err(|e| format!("Cell2 does not deserialise: {}", e))
}

fn close(a: f64, b: f64, tol: f64) -> bool {
    (a - b).abs() <= tol
}

fn oracle(c: &CellCase, rec: &Rec, ctx: &Ctx) -> Result<(), String> {
    check_one(c, rec, ctx, true)?;
    if c.twin != [0.; 3] {
        // a nearly identical cell right after the first one, then the first again: each must be judged on its own values
        let mut t = c.clone();
        t.length = c.length * (1. + c.twin[0]);
        t.ratio = c.ratio * (1. + c.twin[1]);
        t.angle = (c.angle + c.twin[2]).max(1e-3).min(PI - 1e-3);
        check_one(&t, rec, ctx, false).map_err(|e| format!("second cell {:?} evaluated right after {:?}: {}", (t.length, t.ratio, t.angle), (c.length, c.ratio, c.angle), e))?;
        check_one(c, rec, ctx, false).map_err(|e| format!("cell {:?} evaluated again after {:?}: {}", (c.length, c.ratio, c.angle), (t.length, t.ratio, t.angle), e))?;
    }
    Ok(())
}

fn check_one(c: &CellCase, rec: &Rec, _: &Ctx, record: bool) -> Result<(), String> {
    let cell = make_cell(c.length, c.ratio, c.angle, c.family)?;
    let lat = Lattice::from_params(c.length, c.ratio, c.angle);
    let a = lat.va();
    let b = lat.vb();
    rec.eval(1);
    let mag = |f: [f64; 2]| 1e-12 * (lat.a * f[0].abs() + lat.b * f[1].abs()) + 1e-300;
    let m = |f: [f64; 2]| lat.to_cart(P::new(f[0], f[1]));

    // 1. the Cartesian map
    for f in [c.f, c.g, [1., 0.], [0., 1.], [c.f[0] + c.g[0], c.f[1] + c.g[1]]].iter() {
        let want = m(*f);
        let (x, y) = cell.to_cartesian(f[0], f[1]);
        if !close(x, want.x, mag(*f)) || !close(y, want.y, mag(*f)) {
            return Err(format!("to_cartesian({:?}) = ({}, {}) but M f = ({}, {})", f, x, y, want.x, want.y));
        }
        let p = cell.to_cartesian_point(Point2::new(f[0], f[1]));
        if !close(p.x, want.x, mag(*f)) || !close(p.y, want.y, mag(*f)) {
            return Err(format!("to_cartesian_point({:?}) = ({}, {}) but M f = ({}, {})", f, p.x, p.y, want.x, want.y));
        }
    }
    // additivity and homogeneity
    {
        let (x1, y1) = cell.to_cartesian(c.f[0], c.f[1]);
        let (x2, y2) = cell.to_cartesian(c.g[0], c.g[1]);
        let s = [c.f[0] + c.g[0], c.f[1] + c.g[1]];
        let (xs, ys) = cell.to_cartesian(s[0], s[1]);
        let tol = 4. * (mag(c.f) + mag(c.g));
        if !close(xs, x1 + x2, tol) || !close(ys, y1 + y2, tol) {
            return Err(format!("to_cartesian is not additive: f={:?} g={:?}: ({},{}) vs ({},{})", c.f, c.g, xs, ys, x1 + x2, y1 + y2));
        }
        let (xk, yk) = cell.to_cartesian(c.scale * c.f[0], c.scale * c.f[1]);
        let tol = 4. * c.scale.abs().max(1.) * mag(c.f);
        if !close(xk, c.scale * x1, tol) || !close(yk, c.scale * y1, tol) {
            return Err(format!("to_cartesian is not homogeneous: {}*{:?}", c.scale, c.f));
        }
    }
    // 2. isometry: linear part untouched, position mapped
    let t = Transform2::from(Matrix3::new(c.lin[0], c.lin[1], c.f[0], c.lin[2], c.lin[3], c.f[1], 0., 0., 1.));
    let tm: Matrix3<f64> = t.into();
    {
        let ti: Matrix3<f64> = cell.to_cartesian_isometry(t).into();
        let want = m(c.f);
        for (r, cc) in [(0, 0), (0, 1), (1, 0), (1, 1)].iter() {
            if ti[(*r, *cc)].to_bits() != tm[(*r, *cc)].to_bits() {
                return Err(format!("to_cartesian_isometry changed the linear part entry ({},{}) from {} to {}", r, cc, tm[(*r, *cc)], ti[(*r, *cc)]));
            }
        }
        if !close(ti[(0, 2)], want.x, mag(c.f)) || !close(ti[(1, 2)], want.y, mag(c.f)) {
            return Err(format!("to_cartesian_isometry position ({}, {}) but M f = ({}, {})", ti[(0, 2)], ti[(1, 2)], want.x, want.y));
        }
    }
    // 3. periodic images as a multiset
    {
        let k = c.shells;
        let side = (2 * k + 1) as usize;
        let mut seen = vec![0u32; side * side];
        let base = m(c.f);
        let minv = lat.m().inv();
        let mut count = 0usize;
        for img in cell.periodic_images(t, k, c.zero) {
            count += 1;
            let im: Matrix3<f64> = img.into();
            for (r, cc) in [(0, 0), (0, 1), (1, 0), (1, 1)].iter() {
                if im[(*r, *cc)].to_bits() != tm[(*r, *cc)].to_bits() {
                    return Err(format!("a periodic image has a different linear part: entry ({},{}) {} vs {}", r, cc, im[(*r, *cc)], tm[(*r, *cc)]));
                }
            }
            let d = P::new(im[(0, 2)] - base.x, im[(1, 2)] - base.y);
            let fr = minv.apply(d);
            let (n, mm) = (fr.x.round(), fr.y.round());
            let want = a.scale(n).add(b.scale(mm));
            let tol = 1e-12 * (lat.a * (c.f[0].abs() + n.abs() + 1.) + lat.b * (c.f[1].abs() + mm.abs() + 1.)) * 4.;
            if !close(d.x, want.x, tol) || !close(d.y, want.y, tol) {
                return Err(format!("a periodic image is displaced by ({}, {}) which is not a lattice vector (nearest n={}, m={} gives ({}, {}))", d.x, d.y, n, mm, want.x, want.y));
            }
            if n.abs() > k as f64 || mm.abs() > k as f64 {
                return Err(format!("periodic image at lattice index ({}, {}) lies outside {} shells", n, mm, k));
            }
            let ix = ((n as i64 + k) as usize) * side + (mm as i64 + k) as usize;
            seen[ix] += 1;
        }
        let expected = side * side - if c.zero { 0 } else { 1 };
        if count != expected {
            return Err(format!("periodic_images(shells={}, zero={}) yields {} placements, expected {}", k, c.zero, count, expected));
        }
        for n in -k..=k {
            for mm in -k..=k {
                let ix = ((n + k) as usize) * side + (mm + k) as usize;
                let want = if n == 0 && mm == 0 && !c.zero { 0 } else { 1 };
                if seen[ix] != want {
                    return Err(format!("lattice translate ({}, {}) occurs {} times in periodic_images(shells={}, zero={}), expected {}", n, mm, seen[ix], k, c.zero, want));
                }
            }
        }
        rec.eval(count as u64);
    }
    // 4. area
    {
        let area = cell.area();
        let want = lat.area();
        if !close(area, want, 1e-12 * want) {
            return Err(format!("area() = {} but |A x B| = {}", area, want));
        }
        let (ax, ay) = cell.to_cartesian(1., 0.);
        let (bx, by) = cell.to_cartesian(0., 1.);
        let own = (ax * by - ay * bx).abs();
        if !close(area, own, 4e-12 * want) {
            return Err(format!("area() = {} disagrees with the cross product {} of the cell's own lattice vectors", area, own));
        }
    }
    // 5. corners as a set
    {
        let corners = cell.get_corners();
        if corners.len() != 4 {
            return Err(format!("get_corners() returns {} points", corners.len()));
        }
        let mut used = [false; 4];
        for (sx, sy) in [(-0.5, -0.5), (-0.5, 0.5), (0.5, 0.5), (0.5, -0.5)].iter() {
            let want = m([*sx, *sy]);
            let tol = mag([0.5, 0.5]);
            let mut found = false;
            for (i, p) in corners.iter().enumerate() {
                if !used[i] && close(p.x, want.x, tol) && close(p.y, want.y, tol) {
                    used[i] = true;
                    found = true;
                    break;
                }
            }
            if !found {
                return Err(format!("corner M({}, {}) = ({}, {}) missing from get_corners() = {:?}", sx, sy, want.x, want.y, corners));
            }
        }
    }
    if !record {
        return Ok(());
    }
    let nt = c.angle != PI / 2. && c.shells >= 2;
    let class = format!("{}{}{}", FAMILIES[c.family], if nt { "/oblique-k>=2" } else { "/trivial" }, if c.zero { "/zero" } else { "/nozero" });
    rec.class(&class);
    if nt {
        rec.nontrivial(hash_f64s(&[c.length, c.ratio, c.angle, c.f[0], c.f[1], c.shells as f64, c.family as f64]));
    }
    if rec.wants_sample(&class) {
        rec.sample(&class, || serde_json::to_value(c).unwrap());
    }
    Ok(())
}

pub fn parts() -> Vec<PartDef> {
    vec![part("cells", 6_000_000, 120_000_000, strat, oracle)]
}

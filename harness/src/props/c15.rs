//! C15 — each site yields the group's copies, once each, inside one canonical cell.

use std::f64::consts::PI;

use nalgebra::Matrix3;
use packing::{LJShape2, LineShape, PackedState, PotentialState};
use proptest::prelude::*;
use serde::{Deserialize, Serialize};

use crate::engine::{hash_f64s, part, Ctx, PartDef, Rec};
use crate::gen::mixf;
use crate::geom::{self, circ_dist, Lin, P};
use crate::statejson::{self, Params};

pub const TITLE: &str = "Each site yields the group's copies, once each, inside one canonical cell";
pub const RULE: &str = "cases = (group, x, y from a bound-heavy mixture {uniform in [-1/2,1/2], exactly +-1/2, 0, +-1/4, within 1e-12 of a bound, +-1e-17, 1/2-2^-54}, orientation from {uniform in [0,2pi], 0, pi, 2pi}, integer lattice shift (p,q) in -3..3, turn count k in -2..2, state kind). The state is deserialised with those site values; relative_positions() is compared with the harness's ITA table: exactly N items; every coordinate in [-1/2,1/2) exactly; a one-to-one matching of placements to operations with position = W(x,y)+w mod 1 (1e-12 on the circle) and linear part = W R(phi) (1e-12); the twin (x+p, y+q, phi+2 pi k) gives the same placements. Non-trivial = some copy has a coordinate within 1e-9 of +-1/2 before wrapping, or the twin is a genuine shift (p,q,k not all 0) in a group of order >= 2; distinct by hash of (group,x,y,phi,p,q,k).";

pub fn assumptions() -> Vec<&'static str> {
    vec!["placements are matched to operations as a permutation, so a harmless re-ordering of a table is not reported here (C16 compares the tables themselves)"]
}

#[derive(Clone, Debug, Serialize, Deserialize)]
pub struct SiteCase {
    pub group: usize,
    pub x: f64,
    pub y: f64,
    pub phi: f64,
    pub p: i32,
    pub q: i32,
    pub k: i32,
    pub lj: bool,
    /// the remaining public fields of the site's Wyckoff record (letter index, num_rotations, mirror_primary,
    /// mirror_secondary): the statement is about the operations and the coordinates, so these may not matter
    #[serde(default)]
    pub record: Option<(u8, u64, bool, bool)>,
}

fn coord() -> BoxedStrategy<f64> {
    prop_oneof![
        6 => mixf(-0.5, 0.5, vec![0., 0.25, -0.25, 1e-17, -1e-17, 0.5 - 2f64.powi(-54), -0.5 + 2f64.powi(-54), 0.125]),
        1 => Just(0.5),
        1 => Just(-0.5),
    ]
    .boxed()
}

fn strat(_: &Ctx) -> BoxedStrategy<SiteCase> {
    (0usize..7, coord(), coord(), mixf(0., 2. * PI, vec![0., PI, 2. * PI, PI / 2.]), -3i32..=3, -3i32..=3, -2i32..=2, any::<bool>(), prop_oneof![3 => Just(None), 1 => (0u8..6, proptest::sample::select(vec![1u64, 2, 3, 4, 6, 12]), any::<bool>(), any::<bool>()).prop_map(Some)])
        .prop_map(|(group, x, y, phi, p, q, k, lj, record)| SiteCase { group, x, y, phi, p, q, k, lj, record })
        .boxed()
}

/// the state with the other public fields of its site record replaced (through the JSON form, like any user of the files)
fn with_record<T: serde::Serialize + serde::de::DeserializeOwned + Clone>(s: &T, c: &SiteCase) -> Result<T, String> {
    let (letter, num_rotations, mp, ms) = match c.record {
        None => return Ok(s.clone()),
        Some(r) => r,
    };
    let mut v = serde_json::to_value(s).map_err(|e| e.to_string())?;
    for site in v["occupied_sites"].as_array_mut().ok_or("no occupied_sites")?.iter_mut() {
        let w = &mut site["wyckoff"];
        w["letter"] = serde_json::json!(["a", "b", "c", "d", "e", "f"][letter as usize % 6]);
        w["num_rotations"] = serde_json::json!(num_rotations);
        w["mirror_primary"] = serde_json::json!(mp);
        w["mirror_secondary"] = serde_json::json!(ms);
    }
    serde_json::from_value(v).map_err(|e| e.to_string())
}

fn placements(c: &SiteCase, x: f64, y: f64, phi: f64) -> Result<Vec<(Lin, P)>, String> {
    let p = Params { length: 10., ratio: 1., angle: PI / 2., x, y, phi };
    let wg = statejson::wg(c.group);
    let mats: Vec<Matrix3<f64>> = if c.lj {
        let t = PotentialState::from_group(LJShape2::circle(), &wg).map_err(|e| e.to_string())?;
        let s = with_record(&statejson::with_params(&t, &p)?, c)?;
        let v: Vec<Matrix3<f64>> = s.relative_positions().map(|t| t.into()).collect();
        v
    } else {
        let t = PackedState::from_group(LineShape::polygon(4).map_err(|e| e.to_string())?, &wg).map_err(|e| e.to_string())?;
        let s = with_record(&statejson::with_params(&t, &p)?, c)?;
        let v: Vec<Matrix3<f64>> = s.relative_positions().map(|t| t.into()).collect();
        v
    };
    Ok(mats.iter().map(|m| (Lin { a: m[(0, 0)], b: m[(0, 1)], c: m[(1, 0)], d: m[(1, 1)] }, P::new(m[(0, 2)], m[(1, 2)]))).collect())
}

fn oracle(c: &SiteCase, rec: &Rec, _: &Ctx) -> Result<(), String> {
    let g = geom::group(c.group);
    let n = g.ops.len();
    let got = placements(c, c.x, c.y, c.phi)?;
    rec.eval(1);
    if got.len() != n {
        return Err(format!("{}: relative_positions() yields {} placements, the group has order {}", g.name, got.len(), n));
    }
    let mut near_face = false;
    // exact half-open range
    for (k, (_, t)) in got.iter().enumerate() {
        for v in [t.x, t.y].iter() {
            if !(*v >= -0.5 && *v < 0.5) {
                return Err(format!("{}: placement {} has fractional coordinate {} outside [-1/2, 1/2)", g.name, k, v));
            }
        }
    }
    // matching
    let rot = Lin::rot(c.phi);
    let mut used = vec![false; n];
    for (k, (l, t)) in got.iter().enumerate() {
        let mut ok = false;
        for (j, o) in g.ops.iter().enumerate() {
            if used[j] {
                continue;
            }
            let f = o.apply(P::new(c.x, c.y));
            let want_l = o.l.mul(rot);
            if circ_dist(f.x, t.x) <= 1e-12 && circ_dist(f.y, t.y) <= 1e-12 && want_l.max_abs_diff(*l) <= 1e-12 {
                used[j] = true;
                ok = true;
                break;
            }
        }
        if !ok {
            return Err(format!(
                "{}: placement {} (linear {:?}, position {:?}) of site ({}, {}, {}) is not the image of any not-yet-used group operation (position mod 1 and linear part W R(phi), tolerance 1e-12)",
                g.name, k, l, t, c.x, c.y, c.phi
            ));
        }
    }
    for o in g.ops.iter() {
        let f = o.apply(P::new(c.x, c.y));
        for v in [f.x, f.y].iter() {
            if circ_dist(*v, 0.5) < 1e-9 {
                near_face = true;
            }
        }
    }
    // twin
    let shifted = c.p != 0 || c.q != 0 || c.k != 0;
    if shifted {
        let phi2 = c.phi + 2. * PI * c.k as f64;
        let twin = placements(c, c.x + c.p as f64, c.y + c.q as f64, phi2)?;
        rec.eval(1);
        if twin.len() != n {
            return Err(format!("{}: the lattice-shifted twin yields {} placements", g.name, twin.len()));
        }
        let mut used = vec![false; n];
        for (k, (l, t)) in twin.iter().enumerate() {
            for v in [t.x, t.y].iter() {
                if !(*v >= -0.5 && *v < 0.5) {
                    return Err(format!("{}: twin placement {} has coordinate {} outside [-1/2, 1/2)", g.name, k, v));
                }
            }
            let mut ok = false;
            for (j, (l0, t0)) in got.iter().enumerate() {
                if used[j] {
                    continue;
                }
                if circ_dist(t0.x, t.x) <= 1e-12 && circ_dist(t0.y, t.y) <= 1e-12 && l0.max_abs_diff(*l) <= 1e-12 {
                    used[j] = true;
                    ok = true;
                    break;
                }
            }
            if !ok {
                return Err(format!(
                    "{}: site ({}, {}, {}) and its twin shifted by ({}, {}) cells and {} turns give different placements: twin placement {} = ({:?}, {:?}) has no partner in {:?}",
                    g.name, c.x, c.y, c.phi, c.p, c.q, c.k, k, l, t, got
                ));
            }
        }
    }
    let nt = near_face || (shifted && n >= 2);
    let class = format!("{}{}{}", g.name, if near_face { "/on-face" } else { "/interior" }, if shifted { "/twin" } else { "" });
    rec.class(&class);
    if nt {
        rec.nontrivial(hash_f64s(&[c.group as f64, c.x, c.y, c.phi, c.p as f64, c.q as f64, c.k as f64]));
    }
    if rec.wants_sample(&class) {
        rec.sample(&class, || serde_json::to_value(c).unwrap());
    }
    Ok(())
}

pub fn parts() -> Vec<PartDef> {
    vec![part("sites", 4_000_000, 80_000_000, strat, oracle)]
}

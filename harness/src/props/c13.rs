//! C13 — the pair potential is the shifted, truncated 12-6 Lennard-Jones law.

use nalgebra::{Matrix3, Point2};
use packing::traits::Potential;
use packing::{LJShape2, Transform2, LJ2};
use proptest::prelude::*;
use serde::{Deserialize, Serialize};

use crate::engine::{hash_f64s, part, Ctx, PartDef, Rec};

pub const TITLE: &str = "The pair potential is the shifted, truncated 12-6 Lennard-Jones law";
pub const RULE: &str = "part pair: sigma, epsilon log-uniform in [1e-2,1e2]; cutoff None or in [0.5,10] sigma; r log-uniform in [0.3,20] sigma, or within +-1e-9 (relative) of the cutoff, or at 2^(1/6) sigma; random direction; a common rigid motion or reflection; optionally an unlike partner (different sigma, epsilon, cutoff). Oracle, like particles: closed form 4 eps ((s/r)^12-(s/r)^6) minus the value at the cutoff (rel 1e-9 of the sum of magnitudes), exactly 0 at r >= r_c(1+1e-12), |E| <= 2|dE/dr| r_c delta just inside, -eps at the uncut minimum and >= -eps everywhere uncut; all pairs: E(Ta,Tb)=E(a,b) (rel 1e-9) and E(a,b)=E(b,a) (rel 1e-12). part molecule: molecules of 1..5 generated particles; E(A,B) = sum over particle pairs of the pair energy (rel 1e-12 of the magnitudes), and E(A,B)=E(B,A). Non-trivial = cutoff set and r within 10% of it, or an unlike pair, or a molecule pair with >= 4 particle pairs; distinct by hash of the numbers.";

pub fn assumptions() -> Vec<&'static str> {
    vec!["no mixing rule is prescribed for unlike particles, only symmetry (the statement names none)", "r = 0 is outside the property's domain (r > 0)"]
}

#[derive(Clone, Debug, Serialize, Deserialize)]
pub struct PairCase {
    pub sigma: f64,
    pub epsilon: f64,
    pub cutoff: Option<f64>,
    /// distance in units of sigma
    pub r_rel: f64,
    pub dir: f64,
    pub pos: (f64, f64),
    pub motion: (f64, f64, f64, bool),
    pub other: Option<(f64, f64, Option<f64>)>,
}

fn logu(lo: f64, hi: f64) -> BoxedStrategy<f64> {
    (lo.log10()..hi.log10()).prop_map(|e| 10f64.powf(e)).boxed()
}

/// 1, or 1 +- 10^U(-15,-1)
fn near_one() -> BoxedStrategy<f64> {
    prop_oneof![1 => Just(1.0f64), 3 => (-15.0..-1.0f64, any::<bool>()).prop_map(|(e, up)| if up { 1. + 10f64.powf(e) } else { 1. - 10f64.powf(e) })].boxed()
}

fn pair_strat(_: &Ctx) -> BoxedStrategy<PairCase> {
    let cutoff = prop_oneof![1 => Just(None), 3 => (0.5..10.0f64).prop_map(Some)];
    (logu(1e-2, 1e2), logu(1e-2, 1e2), cutoff)
        .prop_flat_map(|(sigma, epsilon, cutoff_rel)| {
            let r = match cutoff_rel {
                Some(c) => prop_oneof![
                    4 => logu(0.3, 20.),
                    2 => (-1.0e-9..1.0e-9f64).prop_map(move |e| c * (1. + e)),
                    2 => (0.9..1.1f64).prop_map(move |e| c * e),
                    1 => Just(2f64.powf(1. / 6.)),
                ]
                .boxed(),
                None => prop_oneof![6 => logu(0.3, 20.), 1 => Just(2f64.powf(1. / 6.)), 1 => (0.95..1.3f64)].boxed(),
            };
            let other = prop_oneof![
                2 => Just(None),
                2 => (logu(1e-2, 1e2), logu(1e-2, 1e2), prop_oneof![Just(None), (0.5..10.0f64).prop_map(Some)]).prop_map(|(s, e, c)| Some((s, e, c.map(|c| c * s)))),
                // a nearly identical species: sigma and / or epsilon differ by a relative 1e-15 .. 1e-1 (either sign)
                1 => (near_one(), near_one(), any::<bool>()).prop_map(move |(fs, fe, same_cut)| Some((sigma * fs, epsilon * fe, if same_cut { cutoff_rel.map(|c| c * sigma) } else { cutoff_rel.map(|c| c * sigma * fs) }))),
            ];
            (Just(sigma), Just(epsilon), Just(cutoff_rel.map(|c| c * sigma)), r, 0.0..std::f64::consts::TAU, (-5.0..5.0f64, -5.0..5.0f64), (0.0..std::f64::consts::TAU, -100.0..100.0f64, -100.0..100.0f64, any::<bool>()), other)
        })
        .prop_map(|(sigma, epsilon, cutoff, r_rel, dir, pos, motion, other)| PairCase { sigma, epsilon, cutoff, r_rel, dir, pos, motion, other })
        .boxed()
}

fn lj(x: f64, y: f64, sigma: f64, epsilon: f64, cutoff: Option<f64>) -> LJ2 {
    crate::statejson::lj2(x, y, sigma, epsilon, cutoff)
}

fn motion(m: (f64, f64, f64, bool)) -> Transform2 {
    let (phi, tx, ty, mirror) = m;
    let (s, c) = phi.sin_cos();
    if mirror {
        // reflection about the x axis followed by the rotation
        Transform2::from(Matrix3::new(c, s, tx, s, -c, ty, 0., 0., 1.))
    } else {
        Transform2::new(phi, (tx, ty))
    }
}

/// (value, sum of magnitudes of the terms)
fn closed_form(sigma: f64, epsilon: f64, cutoff: Option<f64>, r: f64) -> (f64, f64) {
    let s6 = (sigma / r).powi(6);
    let raw = 4. * epsilon * (s6 * s6 - s6);
    let mag = 4. * epsilon * (s6 * s6 + s6);
    match cutoff {
        None => (raw, mag),
        Some(rc) => {
            let c6 = (sigma / rc).powi(6);
            let shift = 4. * epsilon * (c6 * c6 - c6);
            (raw - shift, mag + 4. * epsilon * (c6 * c6 + c6))
        }
    }
}

fn pair_oracle(c: &PairCase, rec: &Rec, ctx: &Ctx) -> Result<(), String> {
    let r = c.r_rel * c.sigma;
    let a = lj(c.pos.0, c.pos.1, c.sigma, c.epsilon, c.cutoff);
    let (bs, be, bc) = match c.other {
        Some((s, e, cut)) => (s, e, cut),
        None => (c.sigma, c.epsilon, c.cutoff),
    };
    let b = lj(c.pos.0 + r * c.dir.cos(), c.pos.1 + r * c.dir.sin(), bs, be, bc);
    // the distance actually realised by the two positions
    let r_real = ((b.position.x - a.position.x).powi(2) + (b.position.y - a.position.y).powi(2)).sqrt();
    let e_ab = a.energy(&b);
    let e_ba = b.energy(&a);
    rec.eval(2);
    let unlike = c.other.is_some() && (bs != c.sigma || be != c.epsilon || bc != c.cutoff);
    let mut near_cut = false;
    if !unlike {
        let (want, mag) = closed_form(c.sigma, c.epsilon, c.cutoff, r_real);
        match c.cutoff {
            Some(rc) => {
                let rel = r_real / rc - 1.;
                near_cut = rel.abs() < 0.1;
                if rel >= 1e-12 {
                    if e_ab != 0. {
                        return Err(format!("energy beyond the cutoff is {} (r = {}, cutoff = {}), must be exactly 0", e_ab, r_real, rc));
                    }
                } else if rel > -1e-12 {
                    // either side of the cutoff is acceptable; the value must be small (continuity)
                    let slope = 4. * c.epsilon * (12. * (c.sigma / rc).powi(12) + 6. * (c.sigma / rc).powi(6)) / rc;
                    if !(e_ab.abs() <= 2. * slope * rc * 2e-12 + 1e-9 * mag) {
                        return Err(format!("energy at the cutoff (r/rc-1 = {:e}) is {}, not continuous with 0", rel, e_ab));
                    }
                } else {
                    if !((e_ab - want).abs() <= 1e-9 * mag) {
                        return Err(format!("E(r={}) = {} but the shifted 12-6 law gives {} (sigma={}, eps={}, cutoff={})", r_real, e_ab, want, c.sigma, c.epsilon, rc));
                    }
                    if rel > -1e-8 {
                        let slope = 4. * c.epsilon * (12. * (c.sigma / rc).powi(12) + 6. * (c.sigma / rc).powi(6)) / rc;
                        if !(e_ab.abs() <= 2. * slope * rc * (-rel) + 1e-9 * mag) {
                            return Err(format!("energy just inside the cutoff (r/rc-1 = {:e}) is {}: the potential does not go to 0 at the cutoff", rel, e_ab));
                        }
                    }
                }
            }
            None => {
                if !((e_ab - want).abs() <= 1e-9 * mag) {
                    return Err(format!("E(r={}) = {} but 4 eps ((s/r)^12-(s/r)^6) = {} (sigma={}, eps={})", r_real, e_ab, want, c.sigma, c.epsilon));
                }
                if !(e_ab >= -c.epsilon * (1. + 1e-9)) {
                    return Err(format!("uncut energy {} lies below the minimum -eps = {}", e_ab, -c.epsilon));
                }
                if (c.r_rel - 2f64.powf(1. / 6.)).abs() < 1e-12 && !((e_ab + c.epsilon).abs() <= 1e-9 * mag) {
                    return Err(format!("energy at r = 2^(1/6) sigma is {}, expected -eps = {}", e_ab, -c.epsilon));
                }
            }
        }
    }
    // symmetry in the two particles (all pairs)
    let scale = e_ab.abs().max(e_ba.abs());
    let sym_ok = if scale == 0. { true } else { (e_ab - e_ba).abs() <= 1e-12 * scale.max(1e-300) };
    if !sym_ok {
        let msg = format!(
            "E(a,b) = {} but E(b,a) = {} (a: sigma={}, eps={}, cutoff={:?}; b: sigma={}, eps={}, cutoff={:?}; r={})",
            e_ab, e_ba, c.sigma, c.epsilon, c.cutoff, bs, be, bc, r_real
        );
        if unlike && ctx.known.listed("C13", "lj-unlike-asymmetry") {
            rec.known("lj-unlike-asymmetry", || format!("LJ2::energy is not symmetric for unlike particles, e.g. {}", msg));
        } else {
            return Err(msg);
        }
    }
    // invariance under a common rigid motion / reflection (through the package's own transform of particles)
    {
        let t = motion(c.motion);
        let ta = &a * &t;
        let tb = &b * &t;
        if ta.sigma != a.sigma || ta.epsilon != a.epsilon || ta.cutoff != a.cutoff {
            return Err("transforming a particle changed sigma, epsilon or cutoff".to_string());
        }
        let e2 = ta.energy(&tb);
        rec.eval(1);
        // the moved distance differs by rounding of coordinates of size <= 150: relative error of r ~ 3e-14/r
        let r2 = ((tb.position.x - ta.position.x).powi(2) + (tb.position.y - ta.position.y).powi(2)).sqrt();
        let dr_rel = ((r2 - r_real) / r_real).abs();
        let (_, mag) = closed_form(c.sigma.max(bs), c.epsilon.max(be), None, r_real);
        let tol = 1e-9 * mag.max(scale) + 14. * dr_rel * mag;
        let crosses_cut = [c.cutoff, bc].iter().any(|k| k.map(|rc| (r_real / rc - 1.).abs() < 1e-9).unwrap_or(false));
        if !crosses_cut && !((e2 - e_ab).abs() <= tol) {
            return Err(format!("E(Ta,Tb) = {} but E(a,b) = {} for the common motion {:?} (r = {} -> {})", e2, e_ab, c.motion, r_real, r2));
        }
        // the other operator form (transform on the left) must move the particle identically and keep its parameters
        let t2: Transform2 = t;
        let ta2 = t2 * a.clone();
        let tb2 = &t2 * &b;
        if ta2.position != ta.position || tb2.position != tb.position {
            return Err("Transform2 * LJ2 and LJ2 * Transform2 place the particle differently".to_string());
        }
        if ta2.sigma != a.sigma || ta2.epsilon != a.epsilon || ta2.cutoff != a.cutoff || tb2.sigma != b.sigma || tb2.epsilon != b.epsilon || tb2.cutoff != b.cutoff {
            return Err(format!("Transform2 * LJ2 changed sigma, epsilon or cutoff of the particle ({:?} -> {:?})", (a.sigma, a.epsilon, a.cutoff), (ta2.sigma, ta2.epsilon, ta2.cutoff)));
        }
        let e3 = ta2.energy(&tb2);
        if !crosses_cut && !((e3 - e_ab).abs() <= tol) {
            return Err(format!("E(T a, T b) = {} (transform applied on the left) but E(a,b) = {} for the common motion {:?}", e3, e_ab, c.motion));
        }
    }
    let nt = near_cut || unlike;
    let class = format!("{}{}{}", if unlike { "unlike" } else { "like" }, if c.cutoff.is_some() { "/cut" } else { "/uncut" }, if near_cut { "/near-cutoff" } else { "" });
    rec.class(&class);
    if nt {
        rec.nontrivial(hash_f64s(&[c.sigma, c.epsilon, c.cutoff.unwrap_or(-1.), c.r_rel, c.dir, bs, be]));
    }
    if rec.wants_sample(&class) {
        rec.sample(&class, || serde_json::to_value(c).unwrap());
    }
    Ok(())
}

#[derive(Clone, Debug, Serialize, Deserialize)]
pub struct MolCase {
    /// (x, y, sigma, epsilon, cutoff)
    pub a: Vec<(f64, f64, f64, f64, Option<f64>)>,
    pub b: Vec<(f64, f64, f64, f64, Option<f64>)>,
    pub shift: (f64, f64),
    pub like: bool,
}

fn mol_strat(_: &Ctx) -> BoxedStrategy<MolCase> {
    let atom = (-1.5..1.5f64, -1.5..1.5f64, 0.5..2.5f64, 0.2..3.0f64, prop_oneof![Just(None), (2.0..6.0f64).prop_map(Some)]);
    (proptest::collection::vec(atom.clone(), 1..=5), proptest::collection::vec(atom, 1..=5), (2.0..7.0f64, -3.0..3.0f64), any::<bool>()).prop_map(|(a, b, shift, like)| MolCase { a, b, shift, like }).boxed()
}

fn mol_oracle(c: &MolCase, rec: &Rec, ctx: &Ctx) -> Result<(), String> {
    let mk = |v: &Vec<(f64, f64, f64, f64, Option<f64>)>, dx: f64, dy: f64, like: bool| crate::statejson::lj_molecule("m", v.iter().map(|(x, y, s, e, cut)| if like { lj(x + dx, y + dy, 1.0, 1.0, Some(3.5)) } else { lj(x + dx, y + dy, *s, *e, *cut) }).collect());
    let a = mk(&c.a, 0., 0., c.like);
    let b = mk(&c.b, c.shift.0, c.shift.1, c.like);
    let e_ab = a.energy(&b);
    let e_ba = b.energy(&a);
    let mut sum = 0.;
    let mut mag = 0.;
    for s in a.items.iter() {
        for o in b.items.iter() {
            let e = s.energy(o);
            sum += e;
            mag += e.abs();
        }
    }
    rec.eval(2 + (a.items.len() * b.items.len()) as u64);
    if !((e_ab - sum).abs() <= 1e-12 * mag.max(1e-300)) {
        return Err(format!("molecule energy {} is not the sum {} over its {} particle pairs", e_ab, sum, a.items.len() * b.items.len()));
    }
    if !((e_ab - e_ba).abs() <= 1e-12 * mag.max(1e-300)) {
        let msg = format!("molecule energy is not symmetric: E(A,B) = {}, E(B,A) = {}", e_ab, e_ba);
        if !c.like && ctx.known.listed("C13", "lj-unlike-asymmetry") {
            rec.known("lj-unlike-asymmetry", || msg.clone());
        } else {
            return Err(msg);
        }
    }
    let nt = a.items.len() * b.items.len() >= 4;
    let class = format!("{}x{}{}", a.items.len(), b.items.len(), if c.like { "/like" } else { "/unlike" });
    rec.class(&class);
    if nt {
        rec.nontrivial(hash_f64s(&[c.shift.0, c.shift.1, c.a[0].0, c.b[0].1, a.items.len() as f64, b.items.len() as f64]));
    }
    if rec.wants_sample(&class) {
        rec.sample(&class, || serde_json::to_value(c).unwrap());
    }
    Ok(())
}

pub fn parts() -> Vec<PartDef> {
    vec![part("pair", 12_000_000, 240_000_000, pair_strat, pair_oracle), part("molecule", 2_000_000, 40_000_000, mol_strat, mol_oracle)]
}

//! C04 — every crystal produced has the symmetry of the requested wallpaper group.

use std::f64::consts::PI;

use nalgebra::Point2;
use packing::traits::{Shape, State};
use packing::{BuildOptimiser, LJShape2, LineShape, MolecularShape2, PackedState, PotentialState, LJ2};
use proptest::prelude::*;
use serde::{Deserialize, Serialize};

use crate::engine::{hash_f64s, part, Ctx, PartDef, Rec};
use crate::gen::{convex_radial, is_oblique, mixf, mol_shape_spec};
use crate::geom::{self, Aff, Lattice, P};
use crate::statejson::{self, Params, ShapeSpec};

pub const TITLE: &str = "Every crystal produced has the symmetry of the requested wallpaper group";
pub const RULE: &str = "cases = (state kind: hard polygon (regular 3..12 or chiral radial polygon), hard discs (circle, trimer), Lennard-Jones (circle, trimer, or a chiral molecule of 2..4 generated particles); the library-built shapes (radial polygons, custom molecules) in a unit of length of 1, or 1e-10..1e4 in a fifth of the cases) x group x cell of the group's family (length by density, ratio 0.1..1, angle pi/6..pi/2 only for p1/p2) x site (bound-heavy mixture), optionally followed by an optimisation history (50..1500 steps, 1..8 inner loops, kT 0..0.5, step size up to 1) whose output is re-read from its JSON. Oracle: with the state's actual cell M and the ITA operations (W_k, w_k): M W_k M^-1 is orthogonal (1e-9); the placed shapes shape.transform(p) for p in cartesian_positions(), as point sets (polygon vertices, disc centres with radii), are mapped by every g_k = (M W_k M^-1, M w_k) onto the placed shapes translated by lattice vectors, as a permutation of the copies (1e-9 (1+|t|)). Non-trivial = group order >= 2 and copies pairwise distinct by > 1e-6; distinct by hash of the numbers. part multi-site: 2..4 occupied sites (hard and LJ): every group operation must permute the union of the placed copies modulo the lattice.";

pub fn assumptions() -> Vec<&'static str> {
    vec!["shapes are compared as point sets of their components, so a symmetric shape mapped onto itself with permuted vertices counts as coinciding (it does in the plane)"]
}

#[derive(Clone, Debug, Serialize, Deserialize)]
pub enum Kind {
    HardLine(ShapeSpec),
    HardMol(ShapeSpec),
    Lj(ShapeSpec),
    /// (x, y, sigma)
    LjCustom(Vec<(f64, f64, f64)>),
}

#[derive(Clone, Debug, Serialize, Deserialize)]
pub struct Opt {
    pub steps: u64,
    pub inner: u64,
    pub kt_start: f64,
    pub max_step: f64,
    pub seed: u64,
}

#[derive(Clone, Debug, Serialize, Deserialize)]
pub struct SymCase {
    pub group: usize,
    pub kind: Kind,
    /// area of the cell per copy in units of R^2 pi (R = enclosing radius)
    pub per_copy: f64,
    pub ratio: f64,
    pub angle: f64,
    pub site: (f64, f64, f64),
    pub from_initial: bool,
    pub opt: Option<Opt>,
    /// unit of length of the shape: radii / positions / sigmas of the library-built shapes are multiplied by this
    #[serde(default = "one")]
    pub unit: f64,
}

fn one() -> f64 {
    1.0
}

fn kind_strat() -> BoxedStrategy<Kind> {
    prop_oneof![
        2 => (3usize..=12).prop_map(|sides| Kind::HardLine(ShapeSpec::Polygon { sides })),
        3 => convex_radial().prop_map(Kind::HardLine),
        2 => mol_shape_spec().prop_map(Kind::HardMol),
        2 => mol_shape_spec().prop_map(Kind::Lj),
        3 => proptest::collection::vec((-1.0..1.0f64, -1.0..1.0f64, 0.5..1.5f64), 2..=4).prop_map(Kind::LjCustom),
    ]
    .boxed()
}

fn strat(with_opt: bool) -> BoxedStrategy<SymCase> {
    (0usize..7, kind_strat())
        .prop_flat_map(move |(group, kind)| {
            let angle = if is_oblique(group) { mixf(PI / 6., PI / 2., vec![PI / 2., PI / 3.]) } else { Just(PI / 2.).boxed() };
            let opt = if with_opt {
                (50u64..1500, prop_oneof![Just(1000u64), 20u64..400], prop_oneof![Just(0.), 0.0..0.5f64], prop_oneof![(-3.0..0.0f64).prop_map(|e| 10f64.powf(e)), Just(1.0)], any::<u64>())
                    .prop_map(|(steps, inner, kt_start, max_step, seed)| Some(Opt { steps, inner, kt_start, max_step, seed }))
                    .boxed()
            } else {
                Just(None).boxed()
            };
            (
                Just(group),
                Just(kind),
                (-0.3..1.5f64).prop_map(|e| 10f64.powf(e)),
                mixf(0.1, 1.0, vec![1.0, 0.5]),
                angle,
                (mixf(-0.5, 0.5, vec![0., 0.25]), mixf(-0.5, 0.5, vec![0., 0.25]), mixf(0., 2. * PI, vec![0., PI, PI / 2.])),
                any::<bool>(),
                opt,
                prop_oneof![4 => Just(1.0f64), 1 => (-10.0..4.0f64).prop_map(|e| 10f64.powf(e))],
            )
                .prop_map(|(group, kind, per_copy, ratio, angle, site, from_initial, opt, unit)| SymCase { group, kind, per_copy, ratio, angle, site, from_initial, opt, unit })
        })
        .boxed()
}

type PointSet = Vec<(P, f64)>;

fn pts_line(s: &LineShape) -> PointSet {
    s.items.iter().map(|l| (P::new(l.start.x, l.start.y), 0.)).collect()
}
fn pts_mol(s: &MolecularShape2) -> PointSet {
    s.items.iter().map(|a| (P::new(a.position.x, a.position.y), a.radius)).collect()
}
fn pts_lj(s: &LJShape2) -> PointSet {
    s.items.iter().map(|a| (P::new(a.position.x, a.position.y), a.sigma)).collect()
}

/// the symmetry oracle on placed point sets
pub fn check_symmetry(group: usize, p: &Params, copies: &[(P, PointSet)]) -> Result<bool, String> {
    check_symmetry_sites(group, p, copies, 1)
}

/// the same for a state with `sites` occupied sites (the placed set is the union of the sites' copies)
pub fn check_symmetry_sites(group: usize, p: &Params, copies: &[(P, PointSet)], sites: usize) -> Result<bool, String> {
    let g = geom::group(group);
    let lat = Lattice::from_params(p.length, p.ratio, p.angle);
    let m = lat.m();
    let minv = m.inv();
    if copies.len() != g.ops.len() * sites {
        return Err(format!("{} copies are placed, the group {} has order {} and {} site(s) are occupied", copies.len(), g.name, g.ops.len(), sites));
    }
    let mut distinct = true;
    for i in 0..copies.len() {
        for j in (i + 1)..copies.len() {
            let d = minv.apply(copies[i].0.sub(copies[j].0));
            let dd = P::new(d.x - d.x.round(), d.y - d.y.round());
            if lat.to_cart(dd).norm() <= 1e-6 * lat.a.min(lat.b) {
                distinct = false;
            }
        }
    }
    for (k, o) in g.ops.iter().enumerate() {
        let lin = m.mul(o.l).mul(minv);
        if lin.orthogonality_defect() > 1e-9 {
            return Err(format!("operation #{} of {} is not a rigid motion of the cell (length {}, ratio {}, angle {}): M W M^-1 = {:?}", k, g.name, p.length, p.ratio, p.angle, lin));
        }
        let gk = Aff { l: lin, t: lat.to_cart(o.t) };
        // ok[j][j2]: the image of copy j coincides with copy j2 translated by a lattice vector
        let nc = copies.len();
        let mut ok = vec![vec![false; nc]; nc];
        for (j, (centre, pts)) in copies.iter().enumerate() {
            let gc = gk.apply(*centre);
            let gpts: Vec<(P, f64)> = pts.iter().map(|(q, r)| (gk.apply(*q), *r)).collect();
            for (j2, (c2, pts2)) in copies.iter().enumerate() {
                // the nearest integers and their neighbours (a difference of fractional coordinates within
                // rounding of a half-integer can round either way)
                let f = minv.apply(gc.sub(*c2));
                'search: for dn in [0., -1., 1.].iter() {
                    for dm in [0., -1., 1.].iter() {
                        let l = lat.to_cart(P::new(f.x.round() + dn, f.y.round() + dm));
                        // relative to the size of the structure (the unit of length is arbitrary)
                        let tol = 1e-9 * (lat.a.min(lat.b) + gc.norm() + l.norm());
                        if gc.sub(c2.add(l)).norm() > tol {
                            continue;
                        }
                        let matches = |a: &[(P, f64)], b: &[(P, f64)]| a.iter().all(|(q, r)| b.iter().any(|(q2, r2)| q.sub(q2.add(l)).norm() <= tol && (r - r2).abs() <= 1e-12));
                        let back = |a: &[(P, f64)], b: &[(P, f64)]| b.iter().all(|(q2, r2)| a.iter().any(|(q, r)| q.sub(q2.add(l)).norm() <= tol && (r - r2).abs() <= 1e-12));
                        if gpts.len() == pts2.len() && matches(&gpts, pts2) && back(&gpts, pts2) {
                            ok[j][j2] = true;
                            break 'search;
                        }
                    }
                }
            }
            if !ok[j].iter().any(|x| *x) {
                return Err(format!(
                    "operation #{} of {} maps the placed copy {} (centre {:?}) onto a shape that is not among the placed copies modulo lattice translations (cell {}/{}/{}, {} copies)",
                    k, g.name, j, centre, p.length, p.ratio, p.angle, copies.len()
                ));
            }
        }
        // a perfect matching must exist (each copy hit exactly once): at most 4 copies, so try the permutations
        fn perfect(ok: &Vec<Vec<bool>>, j: usize, used: &mut Vec<bool>) -> bool {
            if j == ok.len() {
                return true;
            }
            for j2 in 0..ok.len() {
                if ok[j][j2] && !used[j2] {
                    used[j2] = true;
                    if perfect(ok, j + 1, used) {
                        return true;
                    }
                    used[j2] = false;
                }
            }
            false
        }
        if !perfect(&ok, 0, &mut vec![false; nc]) {
            return Err(format!(
                "operation #{} of {} does not permute the placed copies: every image coincides with some copy, but two images need the same one (cell {}/{}/{}, {} copies, coincidence table {:?})",
                k, g.name, p.length, p.ratio, p.angle, copies.len(), ok
            ));
        }
    }
    Ok(distinct && g.ops.len() >= 2)
}

fn run_opt<S: State + Serialize + serde::de::DeserializeOwned>(state: S, o: &Opt) -> Result<S, String> {
    let mut b = BuildOptimiser::default();
    b.steps(o.steps).inner_steps(o.inner).kt_start(o.kt_start).kt_ratio(Some(0.1)).max_step_size(o.max_step).seed(o.seed).convergence(None);
    let opt = b.build();
    let res = std::panic::catch_unwind(std::panic::AssertUnwindSafe(|| {
        let out = opt.optimise_state(state);
        serde_json::to_value(&out).ok()
    }));
    match res {
        Ok(Some(v)) => serde_json::from_value(v).map_err(|e| format!("optimiser output does not deserialise: {}", e)),
        _ => Err("optimiser panicked".to_string()),
    }
}

fn params_for(c: &SymCase, radius: f64) -> Params {
    let n = geom::group(c.group).ops.len() as f64;
    let area = n * c.per_copy * PI * radius * radius;
    let length = (area / (c.ratio * c.angle.sin())).sqrt();
    Params { length, ratio: c.ratio, angle: c.angle, x: c.site.0, y: c.site.1, phi: c.site.2 }
}

fn oracle(c: &SymCase, rec: &Rec, _: &Ctx) -> Result<(), String> {
    let wg = statejson::wg(c.group);
    macro_rules! go {
        ($init:expr, $pts:expr, $valid_needed:expr) => {{
            let init = $init;
            let radius = init.shape.enclosing_radius();
            let mut st = if c.from_initial { init } else { statejson::with_params(&init, &params_for(c, if radius.is_finite() && radius > 0. { radius } else { 1. }))? };
            let mut optimised = false;
            if let Some(o) = &c.opt {
                if st.score().map(|s| s.is_finite()).unwrap_or(false) {
                    match run_opt(st.clone(), o) {
                        Ok(s2) => {
                            st = s2;
                            optimised = true;
                        }
                        Err(e) if e == "optimiser panicked" => {
                            rec.class("optimiser-panicked-skipped");
                            return Ok(());
                        }
                        Err(e) => return Err(e),
                    }
                } else if $valid_needed {
                    rec.class("start-invalid-skipped");
                    return Ok(());
                }
            }
            let p = statejson::params_of(&st).ok_or("state JSON lacks parameters")?;
            let copies: Vec<(P, PointSet)> = st
                .cartesian_positions()
                .map(|t| {
                    let placed = st.shape.transform(&t);
                    let centre = t * Point2::new(0., 0.);
                    (P::new(centre.x, centre.y), $pts(&placed))
                })
                .collect();
            (p, copies, optimised)
        }};
    }
    let (p, copies, optimised, kind) = match &c.kind {
        Kind::HardLine(s) => {
            let scaled = match s {
                ShapeSpec::Radial { radii } if c.unit != 1.0 => ShapeSpec::Radial { radii: radii.iter().map(|r| r * c.unit).collect() },
                other => other.clone(),
            };
            let s = &scaled;
            let shape = statejson::line_shape(s).ok_or("shape")?;
            let (p, cp, o) = go!(PackedState::from_group(shape, &wg).map_err(|e| e.to_string())?, pts_line, true);
            (p, cp, o, "hard-polygon")
        }
        Kind::HardMol(s) => {
            let shape = statejson::mol_shape(s).ok_or("shape")?;
            let (p, cp, o) = go!(PackedState::from_group(shape, &wg).map_err(|e| e.to_string())?, pts_mol, true);
            (p, cp, o, "hard-discs")
        }
        Kind::Lj(s) => {
            let shape = statejson::lj_shape(s).ok_or("shape")?;
            let (p, cp, o) = go!(PotentialState::from_group(shape, &wg).map_err(|e| e.to_string())?, pts_lj, true);
            (p, cp, o, "lj")
        }
        Kind::LjCustom(atoms) => {
            let shape = statejson::lj_molecule("custom", atoms.iter().map(|(x, y, s)| statejson::lj2(*x * c.unit, *y * c.unit, *s * c.unit, 1., Some(3.5 * c.unit))).collect());
            let (p, cp, o) = go!(PotentialState::from_group(shape, &wg).map_err(|e| e.to_string())?, pts_lj, true);
            (p, cp, o, "lj-chiral")
        }
    };
    rec.eval(1);
    let nt = check_symmetry(c.group, &p, &copies)?;
    let class = format!("{}/{}{}{}", kind, geom::GROUP_NAMES[c.group], if optimised { "/after-optimisation" } else { "" }, if nt { "" } else { "/trivial" });
    rec.class(&class);
    if nt {
        rec.nontrivial(hash_f64s(&[c.group as f64, p.length, p.ratio, p.angle, p.x, p.y, p.phi]));
    }
    if rec.wants_sample(&class) {
        rec.sample(&class, || serde_json::json!({"case": c, "params_checked": p}));
    }
    Ok(())
}

// ------------------------------------------------------------------------------------------------
// multi-site: 2..4 occupied sites; the union of the placed copies must be invariant

#[derive(Clone, Debug, Serialize, Deserialize)]
pub struct MultiSym {
    pub spec: crate::multisite::MultiSpec,
    pub lj: bool,
}

fn multi_strat(_: &Ctx) -> BoxedStrategy<MultiSym> {
    let shape = prop_oneof![2 => convex_radial(), 1 => (3usize..=8).prop_map(|sides| ShapeSpec::Polygon { sides }), 3 => mol_shape_spec()];
    (crate::multisite::multi_strat(shape.boxed(), 0.02, 0.9, 2, 4), any::<bool>()).prop_map(|(spec, lj)| MultiSym { lj: lj && !matches!(spec.shape, ShapeSpec::Polygon { .. } | ShapeSpec::Radial { .. }), spec }).boxed()
}

fn multi_oracle(c: &MultiSym, rec: &Rec, _: &Ctx) -> Result<(), String> {
    macro_rules! placed {
        ($st:expr, $pts:expr) => {{
            let st = $st;
            let copies: Vec<(P, PointSet)> = st
                .cartesian_positions()
                .map(|t| {
                    let placed = st.shape.transform(&t);
                    let centre = t * Point2::new(0., 0.);
                    (P::new(centre.x, centre.y), $pts(&placed))
                })
                .collect();
            copies
        }};
    }
    let (copies, kind) = match (&c.spec.shape, c.lj) {
        (ShapeSpec::Polygon { .. }, _) | (ShapeSpec::Radial { .. }, _) => (placed!(crate::multisite::packed_line(&c.spec)?, pts_line), "hard-polygon"),
        (_, false) => (placed!(crate::multisite::packed_mol(&c.spec)?, pts_mol), "hard-discs"),
        (_, true) => (placed!(crate::multisite::potential(&c.spec)?, pts_lj), "lj"),
    };
    rec.eval(1);
    let s0 = c.spec.sites[0];
    let p = Params { length: c.spec.length, ratio: c.spec.ratio, angle: c.spec.angle, x: s0.0, y: s0.1, phi: s0.2 };
    let nt = check_symmetry_sites(c.spec.group, &p, &copies, c.spec.sites.len()).map_err(|e| format!("{} ({})", e, c.spec.describe()))?;
    let class = format!("{}/{}/{}sites{}", kind, geom::GROUP_NAMES[c.spec.group], c.spec.sites.len(), if nt { "" } else { "/trivial" });
    rec.class(&class);
    if nt {
        rec.nontrivial(crate::engine::hash_json(&serde_json::to_value(c).unwrap()));
    }
    if rec.wants_sample(&class) {
        rec.sample(&class, || serde_json::to_value(c).unwrap());
    }
    Ok(())
}

pub fn parts() -> Vec<PartDef> {
    vec![part("constructed", 2_000_000, 40_000_000, |_| strat(false), oracle), part("histories", 3_000, 60_000, |_| strat(true), oracle), part("multi-site", 300_000, 9_000_000, multi_strat, multi_oracle)]
}

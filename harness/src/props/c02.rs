//! C02 — the hard-packing score is the true packing fraction, and never exceeds 1.

use std::f64::consts::PI;

use packing::traits::Intersect;
use proptest::prelude::*;
use serde::{Deserialize, Serialize};

use crate::engine::{hash_f64s, part, part_min, Ctx, PartDef, Rec};
use crate::gen::{mixf, trimer_spec};
use crate::geom::{self, Lattice, OShape, P};
use crate::hard::{oracle_worst, oshape_usable, HardTmpl};
use crate::props::c01::TilingCase;
use crate::props::c14::make_cell;
use crate::statejson::{line_shape, mol_shape, oshape_from_spec, Params, ShapeSpec};

pub const TITLE: &str = "The hard-packing score is the true packing fraction, and never exceeds 1";
pub const RULE: &str = "part shapes: regular n-gons 3..12, radial polygons (radii 0.2..1, n 3..12, any), circle, trimers over radius (0,1.5] x angle [0,180] x distance [0,2.5] including the CLI default, triple overlaps, containment and distance 0; oracle: area() against the shoelace area of the documented vertices / the vertical-decomposition area of the union of the documented discs (rel 1e-9). part cells: deserialised cells of all four families; area() = |A x B| (rel 1e-12). part states: one cell with a vector of sites (uniform and thin families of C01); for every state the harness's own tiling oracle finds overlap-free (worst gap > 1e-9) and the package scores: score = N_group * area_true / |A x B| (rel 1e-9) and 0 < score <= 1+1e-9, with N_group from the ITA table, the area from the harness's shape and the cell from the harness's lattice. part histories: real optimiser runs (1..12 loops, step sizes 1e-3..1, kT 0..0.5) behind a logging probe; every score the optimiser saw must equal N*area/|AxB| of the parameters it was computed from (rel 1e-9) — this is where a cached term that goes stale while one state object is modified would show. part shape-replaced: a state is scored, its public shape field is replaced, and it is scored again against the new shape's packing fraction. Non-trivial = shape with >= 1 overlapping disc pair, or an oblique cell (angle != pi/2), or N >= 2; distinct by hash of the numbers. Classes report {no overlap, pair overlap, triple overlap, containment, distance 0} for disc shapes. part multi-site: states with 2..4 occupied sites (initialise); a scored, clearly valid state must score (sites x order) x area / |AxB|. part golden: the 400 hard structures stored in /verif/golden/hard.json (text written by the pinned package, 1..3 sites) are re-read; every one that still deserialises and is clearly valid must score its packing fraction.";

pub fn assumptions() -> Vec<&'static str> {
    vec![
        "the reference area of a union of discs is the harness's slab integration (closed-form circular segments, unit-tested against the 2-disc closed form and a grid estimate)",
        "states the package rejects are not judged here",
    ]
}

#[derive(Clone, Debug, Serialize, Deserialize)]
pub struct ShapeCase {
    pub shape: ShapeSpec,
}

fn shape_strat(_: &Ctx) -> BoxedStrategy<ShapeCase> {
    prop_oneof![
        1 => (3usize..=12).prop_map(|sides| ShapeSpec::Polygon { sides }),
        2 => (3usize..=12).prop_flat_map(|n| proptest::collection::vec(mixf(0.2, 1.0, vec![1.0, 0.5]), n)).prop_map(|radii| ShapeSpec::Radial { radii }),
        1 => Just(ShapeSpec::Circle),
        8 => trimer_spec(),
    ]
    .prop_map(|shape| ShapeCase { shape })
    .boxed()
}

fn disc_class(d: &[(P, f64)]) -> &'static str {
    let n = d.len();
    let mut pair = false;
    let mut contain = false;
    let mut zero = false;
    for i in 0..n {
        for j in (i + 1)..n {
            let dist = d[i].0.sub(d[j].0).norm();
            if dist == 0. {
                zero = true;
            }
            if dist < d[i].1 + d[j].1 {
                pair = true;
                if dist <= (d[i].1 - d[j].1).abs() {
                    contain = true;
                }
            }
        }
    }
    // triple overlap: some point common to three discs — test the pairwise intersection points and centres
    let mut triple = false;
    if n >= 3 {
        let mut pts: Vec<P> = d.iter().map(|x| x.0).collect();
        for i in 0..n {
            for j in (i + 1)..n {
                let (c1, r1) = d[i];
                let (c2, r2) = d[j];
                let dv = c2.sub(c1);
                let dist = dv.norm();
                if dist > 0. && dist < r1 + r2 && dist > (r1 - r2).abs() {
                    let a = (dist * dist + r1 * r1 - r2 * r2) / (2. * dist);
                    let h = (r1 * r1 - a * a).max(0.).sqrt();
                    let u = dv.scale(1. / dist);
                    let m = c1.add(u.scale(a));
                    pts.push(P::new(m.x - h * u.y, m.y + h * u.x));
                    pts.push(P::new(m.x + h * u.y, m.y - h * u.x));
                }
            }
        }
        for p in pts.iter() {
            if d.iter().filter(|(c, r)| p.sub(*c).norm() < r - 1e-12).count() >= 3 {
                triple = true;
            }
        }
    }
    if zero {
        "discs/distance-0"
    } else if contain {
        "discs/containment"
    } else if triple {
        "discs/triple-overlap"
    } else if pair {
        "discs/pair-overlap"
    } else {
        "discs/disjoint"
    }
}

fn shape_oracle(c: &ShapeCase, rec: &Rec, ctx: &Ctx) -> Result<(), String> {
    let os = oshape_from_spec(&c.shape);
    let want = os.area();
    rec.eval(1);
    let (got, class, nt): (f64, String, bool) = match &c.shape {
        ShapeSpec::Polygon { sides } => {
            let s = line_shape(&c.shape).ok_or("polygon cannot be built")?;
            (s.area(), format!("polygon/{}", if *sides <= 6 { "n<=6" } else { "n>6" }), false)
        }
        ShapeSpec::Radial { .. } => {
            let s = line_shape(&c.shape).ok_or("radial polygon cannot be built")?;
            (s.area(), "radial".to_string(), true)
        }
        _ => {
            let s = mol_shape(&c.shape).ok_or("molecule cannot be built")?;
            let d = match &os {
                OShape::Discs(d) => d.clone(),
                _ => unreachable!(),
            };
            if d.iter().any(|(_, r)| !(*r > 0.)) {
                rec.class("discs/skipped-nonpositive-radius");
                return Ok(());
            }
            let cl = disc_class(&d);
            (s.area(), cl.to_string(), cl != "discs/disjoint")
        }
    };
    if !((got - want).abs() <= 1e-9 * want.abs().max(1e-300)) {
        let msg = format!("area() = {} but the true area of {:?} is {} (relative error {:e})", got, c.shape, want, (got - want) / want);
        let sig_applies = class == "discs/triple-overlap" || class == "discs/containment" || class == "discs/distance-0";
        if sig_applies && ctx.known.listed("C02", "disc-triple-or-contained") {
            rec.known("disc-triple-or-contained", || format!("MolecularShape2::area ignores triple overlaps / containment, e.g. {}", msg));
        } else {
            return Err(msg);
        }
    }
    rec.class(&class);
    if nt {
        rec.nontrivial(crate::engine::hash_json(&serde_json::to_value(&c.shape).unwrap()));
    }
    if rec.wants_sample(&class) {
        rec.sample(&class, || serde_json::json!({"shape": c.shape, "area": got}));
    }
    Ok(())
}

#[derive(Clone, Debug, Serialize, Deserialize)]
pub struct CellAreaCase {
    pub length: f64,
    pub ratio: f64,
    pub angle: f64,
    pub family: usize,
}

fn cell_strat(_: &Ctx) -> BoxedStrategy<CellAreaCase> {
    ((-2.0..3.0f64).prop_map(|e| 10f64.powf(e)), mixf(0.1, 1.0, vec![1.0, 0.5]), mixf(PI / 6., PI / 2., vec![PI / 3., PI / 2.]), 0usize..4)
        .prop_map(|(length, ratio, angle, family)| CellAreaCase { length, ratio, angle, family })
        .boxed()
}

fn cell_oracle(c: &CellAreaCase, rec: &Rec, _: &Ctx) -> Result<(), String> {
    let cell = make_cell(c.length, c.ratio, c.angle, c.family)?;
    let want = Lattice::from_params(c.length, c.ratio, c.angle).area();
    let got = cell.area();
    rec.eval(1);
    if !((got - want).abs() <= 1e-12 * want) {
        return Err(format!("Cell2::area() = {} but |A x B| = {} for length {}, ratio {}, angle {}", got, want, c.length, c.ratio, c.angle));
    }
    let nt = c.angle != PI / 2.;
    rec.class(if nt { "cell/oblique" } else { "cell/right-angle" });
    if nt {
        rec.nontrivial(hash_f64s(&[c.length, c.ratio, c.angle, c.family as f64]));
    }
    if rec.wants_sample("cell") {
        rec.sample("cell", || serde_json::to_value(c).unwrap());
    }
    Ok(())
}

fn state_oracle(c: &TilingCase, rec: &Rec, ctx: &Ctx) -> Result<(), String> {
    let mut tmpl = HardTmpl::new(c.group, &c.shape)?;
    let os_built = tmpl.oshape().clone();
    if !oshape_usable(&os_built) {
        rec.class("skipped-unusable-shape");
        return Ok(());
    }
    // the reference area comes from the documented geometry, not from the built items
    let os_doc = oshape_from_spec(&c.shape);
    let area_true = os_doc.area();
    let n = geom::group(c.group).ops.len() as f64;
    let known_shape_defect = match &os_doc {
        OShape::Discs(d) => {
            let cl = disc_class(d);
            (cl == "discs/triple-overlap" || cl == "discs/containment" || cl == "discs/distance-0") && ctx.known.listed("C02", "disc-triple-or-contained")
        }
        _ => false,
    };
    for (x, y, phi) in c.sites.iter() {
        let p = tmpl.set(&Params { length: c.length, ratio: c.ratio, angle: c.angle, x: *x, y: *y, phi: *phi });
        let score = match tmpl.score() {
            Some(s) => s,
            None => {
                rec.class("state/rejected");
                continue;
            }
        };
        let worst = oracle_worst(&os_built, c.group, &p).map(|w| w.gap).unwrap_or(f64::INFINITY);
        if !(worst > 1e-9) {
            rec.class("state/scored-but-not-clearly-valid");
            continue;
        }
        rec.eval(1);
        let cell_area = Lattice::from_params(p.length, p.ratio, p.angle).area();
        let want = n * area_true / cell_area;
        let ok = (score - want).abs() <= 1e-9 * want && score > 0. && score <= 1. + 1e-9;
        if !ok {
            let msg = format!(
                "score() = {} but N*area/|AxB| = {}*{}/{} = {} (group {}, shape {:?}, cell {}/{}/{}, site ({}, {}, {}))",
                score, n, area_true, cell_area, want, geom::GROUP_NAMES[c.group], c.shape, p.length, p.ratio, p.angle, p.x, p.y, p.phi
            );
            if known_shape_defect {
                rec.known("disc-triple-or-contained", || format!("(via the state score) {}", msg));
                continue;
            }
            return Err(msg);
        }
        let nt = p.angle != PI / 2. || n >= 2. || matches!(c.shape, ShapeSpec::Trimer { .. });
        let class = format!("state/valid/N={}{}", n, if p.angle != PI / 2. { "/oblique" } else { "" });
        rec.class(&class);
        rec.counter_max("max-valid-score", score);
        if nt {
            rec.nontrivial(hash_f64s(&[c.group as f64, p.length, p.ratio, p.angle, p.x, p.y, p.phi]));
        }
        if rec.wants_sample(&class) {
            rec.sample(&class, || serde_json::json!({"group": geom::GROUP_NAMES[c.group], "shape": c.shape, "params": p, "score": score}));
        }
    }
    Ok(())
}

// ------------------------------------------------------------------------------------------------
// along optimisation histories: every score the optimiser sees must be the packing fraction of the parameters
// it was computed from (a cached area or cell term that goes stale while one state object is being modified
// would show here and nowhere else)

fn history_oracle(c: &crate::props::c01::HistoryCase, rec: &Rec, _: &Ctx) -> Result<(), String> {
    use crate::probe::{Mode, Probe};
    use packing::traits::State;
    let spec = &c.start;
    let os_doc = oshape_from_spec(&spec.shape);
    let area_true = os_doc.area();
    if !(area_true.is_finite() && area_true > 0.) {
        return Ok(());
    }
    let n = geom::group(spec.group).ops.len() as f64;
    let oblique = crate::gen::is_oblique(spec.group);
    macro_rules! go {
        ($init:expr) => {{
            let init = $init;
            let st = if c.from_initial { init } else { crate::statejson::with_params(&init, &spec.p)? };
            if !st.score().map(|s| s.is_finite()).unwrap_or(false) {
                rec.class("history/start-invalid-skipped");
                return Ok(());
            }
            let reader = crate::statejson::ParamReader::new(&st).ok_or("the state's parameters cannot be mapped to its basis")?;
            let probe = Probe::new(st, c.kt_start == 0.);
            let model = probe.model.clone();
            model.lock().unwrap().mode = Mode::Agnostic;
            let mut b = packing::BuildOptimiser::default();
            b.steps(c.steps).inner_steps(c.inner).kt_start(c.kt_start).kt_ratio(Some(c.kt_ratio.unwrap_or(0.1))).max_step_size(c.max_step).seed(c.seed).convergence(None);
            let opt = b.build();
            let _ = std::panic::catch_unwind(std::panic::AssertUnwindSafe(|| {
                let _ = opt.optimise_state(probe);
            }));
            let m = model.lock().unwrap_or_else(|e| e.into_inner());
            (m.steps.iter().map(|s| (s.proposal.clone(), s.returned)).collect::<Vec<_>>(), reader)
        }};
    }
    let wg = crate::statejson::wg(spec.group);
    let (calls, reader): (Vec<(Vec<f64>, Option<f64>)>, crate::statejson::ParamReader) = match &spec.shape {
        ShapeSpec::Polygon { .. } | ShapeSpec::Radial { .. } => go!(packing::PackedState::from_group(line_shape(&spec.shape).ok_or("shape")?, &wg).map_err(|e| e.to_string())?),
        _ => go!(packing::PackedState::from_group(mol_shape(&spec.shape).ok_or("shape")?, &wg).map_err(|e| e.to_string())?),
    };
    let mut judged = 0u64;
    let mut small_angle_moves = 0u64;
    let mut last_angle = f64::NAN;
    for (params, ret) in calls.iter() {
        let score = match ret {
            Some(s) => *s,
            None => continue,
        };
        let (length, ratio, angle) = match reader.params(params) {
            Some(p) => (p.length, p.ratio, p.angle),
            None => {
                rec.class("history/unexpected-basis-skipped");
                return Ok(());
            }
        };
        let cell_area = Lattice::from_params(length, ratio, angle).area();
        let want = n * area_true / cell_area;
        judged += 1;
        if (angle - last_angle).abs() < 1e-3 && angle != last_angle {
            small_angle_moves += 1;
        }
        last_angle = angle;
        if !((score - want).abs() <= 1e-9 * want) {
            return Err(format!(
                "during an optimisation of {:?} in {} the state with cell length {}, ratio {}, angle {} was scored {} but N*area/|AxB| = {}*{}/{} = {} (relative error {:e})",
                spec.shape,
                geom::GROUP_NAMES[spec.group],
                length,
                ratio,
                angle,
                score,
                n,
                area_true,
                cell_area,
                want,
                (score - want) / want
            ));
        }
    }
    rec.eval(judged);
    let class = format!("history/{}{}", if oblique { "oblique" } else { "rectangular" }, if small_angle_moves > 0 { "/small-angle-moves" } else { "" });
    rec.class(&class);
    if judged >= 10 {
        rec.nontrivial(crate::engine::hash_json(&serde_json::to_value(c).unwrap()));
    }
    if rec.wants_sample(&class) {
        rec.sample(&class, || serde_json::to_value(c).unwrap());
    }
    Ok(())
}

// one state object whose public `shape` field is replaced between two evaluations
#[derive(Clone, Debug, Serialize, Deserialize)]
pub struct ReplaceCase {
    pub group: usize,
    pub first: ShapeSpec,
    pub second: ShapeSpec,
    pub scale: f64,
}

fn replace_strat(_: &Ctx) -> BoxedStrategy<ReplaceCase> {
    prop_oneof![
        (0usize..7, crate::gen::line_shape_spec(), crate::gen::line_shape_spec(), 1.0..3.0f64).prop_map(|(group, first, second, scale)| ReplaceCase { group, first, second, scale }),
        (0usize..7, crate::gen::mol_shape_spec(), crate::gen::mol_shape_spec(), 1.0..3.0f64).prop_map(|(group, first, second, scale)| ReplaceCase { group, first, second, scale }),
    ]
    .boxed()
}

fn replace_oracle(c: &ReplaceCase, rec: &Rec, _: &Ctx) -> Result<(), String> {
    use packing::traits::State;
    let wg = crate::statejson::wg(c.group);
    let n = geom::group(c.group).ops.len() as f64;
    let os2 = oshape_from_spec(&c.second);
    let area2 = os2.area();
    if !(area2.is_finite() && area2 > 0.) {
        return Ok(());
    }
    rec.eval(1);
    macro_rules! go {
        ($mk:expr) => {{
            let s1 = $mk(&c.first).ok_or("shape")?;
            let s2 = $mk(&c.second).ok_or("shape")?;
            // a cell generous enough for either shape
            let mut st = packing::PackedState::from_group(s1, &wg).map_err(|e| e.to_string())?;
            let p0 = crate::statejson::params_of(&st).ok_or("params")?;
            let big = crate::statejson::with_params(&packing::PackedState::from_group(s2.clone(), &wg).map_err(|e| e.to_string())?, &p0)?;
            let _ = big;
            st = crate::statejson::with_params(&st, &Params { length: p0.length * c.scale * 2.5, ..p0.clone() })?;
            let _first_score = st.score();
            st.shape = s2;
            (st.score(), crate::statejson::params_of(&st).ok_or("params")?)
        }};
    }
    let (score, p) = match &c.first {
        ShapeSpec::Polygon { .. } | ShapeSpec::Radial { .. } => go!(line_shape),
        _ => go!(mol_shape),
    };
    let cell_area = Lattice::from_params(p.length, p.ratio, p.angle).area();
    let want = n * area2 / cell_area;
    match score {
        Some(s) => {
            if !((s - want).abs() <= 1e-9 * want) {
                return Err(format!("a state scored with shape {:?} and then given shape {:?} scores {} but N*area/|AxB| of the new shape is {}", c.first, c.second, s, want));
            }
            rec.class("replace/scored");
            rec.nontrivial(crate::engine::hash_json(&serde_json::to_value(c).unwrap()));
        }
        None => rec.class("replace/rejected"),
    }
    if rec.wants_sample("replace") {
        rec.sample("replace", || serde_json::to_value(c).unwrap());
    }
    Ok(())
}

fn single_site(c: &TilingCase, fails: &dyn Fn(&TilingCase) -> bool) -> TilingCase {
    for s in c.sites.iter() {
        let one = TilingCase { sites: vec![*s], ..c.clone() };
        if fails(&one) {
            return one;
        }
    }
    c.clone()
}

// ------------------------------------------------------------------------------------------------
// multi-site: 2..4 occupied sites; the fraction counts every placed copy

fn multi_oracle(c: &crate::multisite::MultiSpec, rec: &Rec, _: &Ctx) -> Result<(), String> {
    let (score, os_built, total) = crate::multisite::hard_score(c)?;
    if !oshape_usable(&os_built) {
        rec.class("skipped-shape");
        return Ok(());
    }
    let score = match score {
        Some(s) => s,
        None => {
            rec.class("rejected");
            return Ok(());
        }
    };
    let lat = c.lattice();
    let copies = c.copies();
    let worst = geom::worst_pair(&os_built, &lat, &copies).map(|w| w.gap).unwrap_or(f64::INFINITY);
    if !(worst > 1e-9) {
        rec.class("scored-but-not-clearly-valid");
        return Ok(());
    }
    rec.eval(1);
    let area_true = oshape_from_spec(&c.shape).area();
    let n = copies.len() as f64;
    let want = n * area_true / lat.area();
    if !((score - want).abs() <= 1e-9 * want && score > 0. && score <= 1. + 1e-9) {
        return Err(format!("score() = {} but N*area/|AxB| = {}*{}/{} = {} for a state with {} occupied sites reporting {} shapes (shape {:?}, {})", score, n, area_true, lat.area(), want, c.sites.len(), total, c.shape, c.describe()));
    }
    let class = format!("valid/{}sites/N={}", c.sites.len(), n);
    rec.class(&class);
    rec.nontrivial(crate::engine::hash_json(&serde_json::to_value(c).unwrap()));
    if rec.wants_sample(&class) {
        rec.sample(&class, || serde_json::json!({"case": c, "score": score}));
    }
    Ok(())
}

// ------------------------------------------------------------------------------------------------
// golden: structures written by the pinned version, re-read from their stored text

fn golden_judge(e: &crate::golden::GoldenEntry, rec: &Rec, _: &Ctx) -> Result<(), String> {
    use packing::traits::State;
    let c = &e.spec;
    let (score, os_built, total) = match e.kind.as_str() {
        "HardLine" => match serde_json::from_str::<packing::PackedState<packing::LineShape>>(&e.text) {
            Ok(s) => (s.score(), crate::statejson::oshape_of_line(&s.shape), s.total_shapes()),
            Err(_) => {
                rec.class("unreadable");
                return Ok(());
            }
        },
        _ => match serde_json::from_str::<packing::PackedState<packing::MolecularShape2>>(&e.text) {
            Ok(s) => (s.score(), crate::statejson::oshape_of_mol(&s.shape), s.total_shapes()),
            Err(_) => {
                rec.class("unreadable");
                return Ok(());
            }
        },
    };
    rec.eval(1);
    let lat = c.lattice();
    let copies = c.copies();
    let os_doc = oshape_from_spec(&c.shape);
    if !oshape_usable(&os_built) || !oshape_usable(&os_doc) {
        rec.class("skipped-shape");
        return Ok(());
    }
    let worst = geom::worst_pair(&os_doc, &lat, &copies).map(|w| w.gap).unwrap_or(f64::INFINITY);
    if !(worst > 1e-9) {
        rec.class("not-clearly-valid");
        return Ok(());
    }
    let want = copies.len() as f64 * os_doc.area() / lat.area();
    match score {
        Some(s) if (s - want).abs() <= 1e-9 * want => {}
        other => return Err(format!("the stored structure reads back but score() = {:?}; it describes {} non-overlapping copies with packing fraction {} (reported shapes {}, {})", other, copies.len(), want, total, c.describe())),
    }
    rec.class(&format!("{}/{}sites", e.kind, c.sites.len()));
    rec.nontrivial(crate::engine::hash_json(&serde_json::to_value(c).unwrap()));
    Ok(())
}

pub fn parts() -> Vec<PartDef> {
    vec![
        part("shapes", 3_000_000, 60_000_000, shape_strat, shape_oracle),
        part("cells", 2_000_000, 40_000_000, cell_strat, cell_oracle),
        part_min("states", 200_000, 4_000_000, |_| crate::props::c01::state_family_strat(), state_oracle, single_site),
        part("histories", 1_500, 45_000, |_| crate::props::c01::history_strat(), history_oracle),
        part("shape-replaced", 60_000, 1_500_000, replace_strat, replace_oracle),
        part("multi-site", 200_000, 6_000_000, |_| crate::multisite::multi_strat(prop_oneof![crate::gen::line_shape_spec(), crate::gen::mol_shape_spec()].boxed(), 0.02, 0.6, 2, 4), multi_oracle),
        crate::golden::golden_part("golden", "hard.json", golden_judge),
    ]
}

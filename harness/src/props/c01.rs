//! C01 — a scored hard packing has no overlapping shapes anywhere in the tiling.

use std::f64::consts::PI;

use packing::traits::State;
use packing::BuildOptimiser;
use proptest::prelude::*;
use serde::{Deserialize, Serialize};

use crate::engine::{hash_f64s, part, part_min, Ctx, PartDef, Rec};
use crate::gen::{is_oblique, line_shape_spec, mixf, mol_shape_spec};
use crate::geom::{self, Lattice, OShape};
use crate::hard::{oshape_usable, HardTmpl};
use crate::probe::Probe;
use crate::statejson::{self, oshape_from_spec, Params, ShapeSpec, StateSpec};

pub const TITLE: &str = "A scored hard packing has no overlapping shapes anywhere in the tiling";
pub const RULE: &str = "cases = one cell (group, shape, length, ratio, angle) with a vector of sites (x, y, orientation); every (cell, site) is one evaluation. Families: uniform (cell from a target packing fraction 0.3..1.05, sites from the bound-heavy mixture); thin (cell height b sin(t) drawn in [0.4,2.2] enclosing radii, ratio and angle from mixtures, sites within 0.02 of a cell face half of the time); contact (a thin-family state whose cell length or site coordinate is bisected until the closest image at lattice index >= 2 overlaps by 1.6e-9..0.3); aligned-contact (p2, a copy within 1e-12..1e-2 of a cell face, its two-fold partner's image two rows away placed in line with it within 0 or 1e-12..1e-2 of a cell, skewed thin cells; the cell length bisected until exactly that image overlaps by 1.6e-9..1e-5); histories (a Probe around real states run through the real optimiser with 1..12 inner loops, every score() call that returned Some is judged). Oracle: for every state with score()==Some, all image pairs with centre distance < 2R found by solving the lattice inequalities (no shell constant), separating-axis / disc-distance signed gap; violation iff some pair penetrates by more than 1e-9. Non-trivial = score is Some and (an image at lattice index >= 2 lies within 2R of a copy, or the smallest gap is below 0.05 R). Distinct by hash of the state's numbers. Also counted: rejected states whose only true overlaps are at index >= 2 (the ones a too-small shell count would accept). part multi-site: states with 2..4 occupied sites built by PackedState::initialise (packing fraction target 0.05..0.75); the placed copies are the union over the sites, judged by the same exhaustive image enumeration; the reported number of shapes must be sites x group order.";

pub fn assumptions() -> Vec<&'static str> {
    vec![
        "states with score()==None are not judged here (over-rejection is not a C01 violation)",
        "polygons are convex; shapes are the ones the package built (public items)",
        "parameters are set through the package's own basis handles (values inside the optimiser's bounds) after discovering which handle drives which named field",
    ]
}

#[derive(Clone, Debug, Serialize, Deserialize)]
pub struct TilingCase {
    pub group: usize,
    pub shape: ShapeSpec,
    pub length: f64,
    pub ratio: f64,
    pub angle: f64,
    pub sites: Vec<(f64, f64, f64)>,
}

fn face_coord() -> BoxedStrategy<f64> {
    prop_oneof![
        3 => (0.0..0.02f64, any::<bool>()).prop_map(|(e, neg)| if neg { -0.5 + e } else { 0.5 - e }),
        2 => (-12.0..-1.7f64, any::<bool>()).prop_map(|(e, neg)| if neg { -0.5 + 10f64.powf(e) } else { 0.5 - 10f64.powf(e) }),
        1 => Just(0.5),
        1 => Just(-0.5),
        3 => -0.5..=0.5f64,
        1 => (0.0..0.02f64, any::<bool>()).prop_map(|(e, neg)| if neg { -e } else { e }),
        1 => (0.0..0.02f64, any::<bool>()).prop_map(|(e, neg)| if neg { -0.25 + e } else { 0.25 - e }),
    ]
    .boxed()
}

fn site_mix() -> BoxedStrategy<(f64, f64, f64)> {
    (mixf(-0.5, 0.5, vec![0., 0.25, -0.25]), mixf(-0.5, 0.5, vec![0., 0.25, -0.25]), mixf(0., 2. * PI, vec![0., PI, PI / 2.])).boxed()
}

fn site_face() -> BoxedStrategy<(f64, f64, f64)> {
    (face_coord(), face_coord(), mixf(0., 2. * PI, vec![0., PI, PI / 2., PI / 3., PI / 4.])).boxed()
}

fn any_shape() -> BoxedStrategy<ShapeSpec> {
    prop_oneof![3 => line_shape_spec(), 2 => mol_shape_spec()].boxed()
}

fn angle_for(group: usize) -> BoxedStrategy<f64> {
    if is_oblique(group) {
        mixf(PI / 6., PI / 2., vec![PI / 2., PI / 3., 1.388, PI / 2. - 0.19, PI / 2. - 0.21, PI / 2. - 0.49])
    } else {
        Just(PI / 2.).boxed()
    }
}

fn shape_area_radius(shape: &ShapeSpec) -> (f64, f64) {
    let os = oshape_from_spec(shape);
    let a = os.area();
    let r = os.enclosing_radius();
    (if a.is_finite() && a > 0. { a } else { PI }, if r.is_finite() && r > 0. { r } else { 1. })
}

fn uniform_strat(n_sites: usize) -> BoxedStrategy<TilingCase> {
    (0usize..7, any_shape())
        .prop_flat_map(move |(group, shape)| {
            let (area, _) = shape_area_radius(&shape);
            let n = geom::group(group).ops.len() as f64;
            (Just(group), Just(shape), 0.3..1.05f64, mixf(0.1, 1.0, vec![1.0, 0.5, 0.51, 0.3, 0.34]), angle_for(group), proptest::collection::vec(site_mix(), 1..=n_sites)).prop_map(move |(group, shape, frac, ratio, angle, sites)| {
                let length = (n * area / (frac * ratio * angle.sin())).sqrt();
                TilingCase { group, shape, length, ratio, angle, sites }
            })
        })
        .boxed()
}

fn thin_strat(n_sites: usize) -> BoxedStrategy<TilingCase> {
    (0usize..7, any_shape())
        .prop_flat_map(move |(group, shape)| {
            let (_, r) = shape_area_radius(&shape);
            (
                Just(group),
                Just(shape),
                0.4..2.2f64,
                prop_oneof![3 => 0.5..=1.0f64, 2 => 0.3..0.55f64, 1 => 0.1..0.35f64, 1 => Just(1.0)],
                angle_for(group),
                proptest::collection::vec(site_face(), 1..=n_sites),
            )
                .prop_map(move |(group, shape, h_rel, ratio, angle, sites)| {
                    // height h = b sin(angle) = h_rel * R
                    let b = h_rel * r / angle.sin();
                    let length = b / ratio;
                    TilingCase { group, shape, length, ratio, angle, sites }
                })
        })
        .boxed()
}

/// mixture of the uniform and thin families with dilute cells included (used by C02/C04 for valid states)
pub fn state_family_strat() -> BoxedStrategy<TilingCase> {
    let dilute = (0usize..7, any_shape())
        .prop_flat_map(move |(group, shape)| {
            let (area, _) = shape_area_radius(&shape);
            let n = geom::group(group).ops.len() as f64;
            (Just(group), Just(shape), 0.05..0.6f64, mixf(0.3, 1.0, vec![1.0, 0.5]), angle_for(group), proptest::collection::vec(site_mix(), 1..=64)).prop_map(move |(group, shape, frac, ratio, angle, sites)| {
                let length = (n * area / (frac * ratio * angle.sin())).sqrt();
                TilingCase { group, shape, length, ratio, angle, sites }
            })
        })
        .boxed();
    prop_oneof![2 => dilute, 1 => uniform_strat(64), 1 => thin_strat(64)].boxed()
}

pub struct Judged {
    pub nontrivial: bool,
    pub class: &'static str,
}

/// judge one state whose score() is Some
pub fn judge_scored(os: &OShape, group: usize, p: &Params, ctx: &Ctx, rec: &Rec, what: &str) -> Result<Judged, String> {
    let g = geom::group(group);
    let lat = Lattice::from_params(p.length, p.ratio, p.angle);
    let copies = geom::site_copies_cartesian(&g, &lat, p.x, p.y, p.phi);
    let desc = format!("group {}, cell length {}, ratio {}, angle {}, site ({}, {}, {})", g.name, p.length, p.ratio, p.angle, p.x, p.y, p.phi);
    judge_copies(os, &lat, &copies, &desc, ctx, rec, what)
}

/// the same for any list of placed copies (several occupied sites)
pub fn judge_copies(os: &OShape, lat: &Lattice, copies: &[geom::Aff], desc: &str, ctx: &Ctx, rec: &Rec, what: &str) -> Result<Judged, String> {
    let r = os.enclosing_radius();
    let mut worst = f64::INFINITY;
    let mut worst_at = (0usize, 0usize, 0i64, 0i64);
    let mut worst_aligned = false;
    let mut far = false;
    geom::tiling_pairs(os, lat, copies, |i, j, n, m, gap, a, b| {
        if n.abs().max(m.abs()) >= 2 {
            far = true;
        }
        if gap < worst {
            worst = gap;
            worst_at = (i, j, n, m);
            worst_aligned = match (a, b) {
                (OShape::Poly(x), OShape::Poly(y)) => gap < -1e-9 && geom::edge_aligned(x, y, 1e-9),
                _ => false,
            };
        }
    });
    if worst < -1e-9 {
        let msg = format!("{}: score() is defined although copy {} and the image of copy {} at lattice index ({}, {}) overlap by {:e} ({})", what, worst_at.0, worst_at.1, worst_at.2, worst_at.3, -worst, desc);
        if worst_aligned && ctx.known.listed("C12", "aligned-edges") {
            rec.known("aligned-edges", || format!("(root cause C12) {}", msg));
            return Ok(Judged { nontrivial: true, class: "known-aligned" });
        }
        return Err(msg);
    }
    let nt = far || worst < 0.05 * r;
    Ok(Judged { nontrivial: nt, class: if far { "scored/far-image-in-range" } else if nt { "scored/near-contact" } else { "scored/loose" } })
}

/// for rejected states: does the oracle see an overlap, and is it only at index >= 2 ?
fn classify_rejected(os: &OShape, group: usize, p: &Params) -> &'static str {
    let g = geom::group(group);
    let lat = Lattice::from_params(p.length, p.ratio, p.angle);
    let copies = geom::site_copies_cartesian(&g, &lat, p.x, p.y, p.phi);
    let mut near_overlap = false;
    let mut far_overlap = false;
    let mut touching = false;
    geom::tiling_pairs(os, &lat, &copies, |_, _, n, m, gap, _, _| {
        if gap < -1e-9 {
            if n.abs().max(m.abs()) >= 2 {
                far_overlap = true;
            } else {
                near_overlap = true;
            }
        } else if gap <= 1e-9 {
            touching = true;
        }
    });
    if near_overlap {
        "rejected/overlap"
    } else if far_overlap {
        "rejected/only-far-overlap"
    } else if touching {
        "rejected/touching-band"
    } else {
        "rejected/oracle-sees-no-overlap"
    }
}

fn tiling_oracle(c: &TilingCase, rec: &Rec, ctx: &Ctx) -> Result<(), String> {
    let mut tmpl = HardTmpl::new(c.group, &c.shape)?;
    let os = tmpl.oshape().clone();
    if !oshape_usable(&os) {
        rec.class("skipped-unusable-shape");
        return Ok(());
    }
    for (k, (x, y, phi)) in c.sites.iter().enumerate() {
        let want = Params { length: c.length, ratio: c.ratio, angle: c.angle, x: *x, y: *y, phi: *phi };
        let p = tmpl.set(&want);
        let score = tmpl.score();
        rec.eval(1);
        match score {
            Some(_) => {
                let j = judge_scored(&os, c.group, &p, ctx, rec, "constructed state")?;
                rec.class(j.class);
                if j.nontrivial {
                    rec.nontrivial(hash_f64s(&[c.group as f64, p.length, p.ratio, p.angle, p.x, p.y, p.phi]));
                }
                if rec.wants_sample(j.class) {
                    rec.sample(j.class, || serde_json::json!({"group": geom::GROUP_NAMES[c.group], "shape": c.shape, "params": p}));
                }
            }
            None => {
                if k % 16 == 0 {
                    let class = classify_rejected(&os, c.group, &p);
                    rec.class(class);
                    if class == "rejected/only-far-overlap" && rec.wants_sample(class) {
                        rec.sample(class, || serde_json::json!({"group": geom::GROUP_NAMES[c.group], "shape": c.shape, "params": p}));
                    }
                } else {
                    rec.class("rejected/not-classified");
                }
            }
        }
    }
    Ok(())
}

// ------------------------------------------------------------------------------------------------
// contact family: slide one variable until a far image just overlaps

#[derive(Clone, Debug, Serialize, Deserialize)]
pub struct ContactCase {
    pub base: TilingCase,
    /// 0 length, 1 x, 2 y, 3 orientation
    pub var: u8,
    pub delta_exp: f64,
}

fn contact_strat() -> BoxedStrategy<ContactCase> {
    // planted penetration depths from just above the 1e-9 tolerance up to 0.3
    (thin_strat(1), 0u8..4, prop_oneof![2 => -6.0..-0.5f64, 1 => -8.8..-6.0f64]).prop_map(|(base, var, delta_exp)| ContactCase { base, var, delta_exp }).boxed()
}

fn far_gap(os: &OShape, group: usize, p: &Params) -> f64 {
    let g = geom::group(group);
    let lat = Lattice::from_params(p.length, p.ratio, p.angle);
    let copies = geom::site_copies_cartesian(&g, &lat, p.x, p.y, p.phi);
    let mut best = f64::INFINITY;
    geom::tiling_pairs(os, &lat, &copies, |_, _, n, m, gap, _, _| {
        if n.abs().max(m.abs()) >= 2 && gap < best {
            best = gap;
        }
    });
    best
}

fn with_var(p: &Params, var: u8, t: f64) -> Params {
    let mut q = p.clone();
    match var {
        0 => q.length = p.length * (0.6 + 0.8 * t),
        1 => q.x = -0.5 + t,
        2 => q.y = -0.5 + t,
        _ => q.phi = 2. * PI * t,
    }
    q
}

fn contact_oracle(c: &ContactCase, rec: &Rec, ctx: &Ctx) -> Result<(), String> {
    let mut tmpl = HardTmpl::new(c.base.group, &c.base.shape)?;
    let os = tmpl.oshape().clone();
    if !oshape_usable(&os) || c.base.sites.is_empty() {
        rec.class("skipped-unusable-shape");
        return Ok(());
    }
    let (x, y, phi) = c.base.sites[0];
    let p0 = Params { length: c.base.length, ratio: c.base.ratio, angle: c.base.angle, x, y, phi };
    let target = -(10f64.powf(c.delta_exp));
    // scan t in [0,1] for a sign change of far_gap - target
    let n = 24;
    let f = |t: f64| far_gap(&os, c.base.group, &with_var(&p0, c.var, t)) - target;
    let mut prev_t = 0.;
    let mut prev_f = f(0.);
    let mut bracket: Option<(f64, f64)> = None;
    let mut best = (prev_f.abs(), 0.);
    for k in 1..=n {
        let t = k as f64 / n as f64;
        let ft = f(t);
        if ft.is_finite() && ft.abs() < best.0 {
            best = (ft.abs(), t);
        }
        if prev_f.is_finite() && ft.is_finite() && (prev_f > 0.) != (ft > 0.) {
            bracket = Some((prev_t, t));
            break;
        }
        prev_t = t;
        prev_f = ft;
    }
    let t_star = match bracket {
        Some((mut lo, mut hi)) => {
            let flo = f(lo) > 0.;
            for _ in 0..60 {
                let mid = 0.5 * (lo + hi);
                if (f(mid) > 0.) == flo {
                    lo = mid;
                } else {
                    hi = mid;
                }
            }
            // the side on which the far image overlaps by at least the target
            if f(lo) <= 0. {
                lo
            } else {
                hi
            }
        }
        None => best.1,
    };
    let want = with_var(&p0, c.var, t_star);
    let p = tmpl.set(&want);
    let score = tmpl.score();
    rec.eval(1);
    let planted = far_gap(&os, c.base.group, &p) < -1e-9;
    match score {
        Some(_) => {
            let j = judge_scored(&os, c.base.group, &p, ctx, rec, "state slid to first far contact")?;
            rec.class(j.class);
            if j.nontrivial {
                rec.nontrivial(hash_f64s(&[c.base.group as f64, p.length, p.ratio, p.angle, p.x, p.y, p.phi]));
            }
        }
        None => {
            let class = classify_rejected(&os, c.base.group, &p);
            rec.class(class);
            if class == "rejected/only-far-overlap" {
                // a state the package must reject and did: the class a too-small shell count would accept
                rec.nontrivial(hash_f64s(&[c.base.group as f64, p.length, p.ratio, p.angle, p.x, p.y, p.phi]));
                if rec.wants_sample(class) {
                    rec.sample(class, || serde_json::json!({"group": geom::GROUP_NAMES[c.base.group], "shape": c.base.shape, "params": p}));
                }
            }
        }
    }
    rec.class(if planted { "planted-far-overlap" } else { "no-far-overlap-planted" });
    Ok(())
}

// ------------------------------------------------------------------------------------------------
// aligned contact: in a group with a two-fold axis, a copy just inside one cell face and its partner just inside the
// opposite face, the partner's image two rows away placed directly in line with the copy (the skew of the cell
// carries the nearer rows aside), and the cell length bisected until exactly that image overlaps by a depth just
// above the tolerance. Here the number of rows that have to be searched is decided by the last digits.

#[derive(Clone, Debug, Serialize, Deserialize)]
pub struct AlignedCase {
    pub group: usize,
    pub shape: ShapeSpec,
    pub theta: f64,
    pub ratio: f64,
    pub n_align: i32,
    pub xi_exp: f64,
    pub xi_neg: bool,
    pub zeta_exp: f64,
    pub top: bool,
    pub delta_exp: f64,
    pub phi: f64,
}

fn aligned_strat() -> BoxedStrategy<AlignedCase> {
    (
        prop_oneof![Just(1usize)],
        prop_oneof![3 => Just(ShapeSpec::Circle), 1 => any_shape()],
        (PI / 6.)..0.8f64,
        0.1..0.45f64,
        -1i32..=2,
        prop_oneof![2 => -12.0..-2.0f64, 1 => Just(-300.0)],
        any::<bool>(),
        -12.0..-2.0f64,
        any::<bool>(),
        -8.8..-5.0f64,
        mixf(0., 2. * PI, vec![0., PI]),
    )
        .prop_map(|(group, shape, theta, ratio, n_align, xi_exp, xi_neg, zeta_exp, top, delta_exp, phi)| AlignedCase { group, shape, theta, ratio, n_align, xi_exp, xi_neg, zeta_exp, top, delta_exp, phi })
        .boxed()
}

fn aligned_oracle(c: &AlignedCase, rec: &Rec, ctx: &Ctx) -> Result<(), String> {
    let mut tmpl = HardTmpl::new(c.group, &c.shape)?;
    let os = tmpl.oshape().clone();
    if !oshape_usable(&os) {
        rec.class("skipped-unusable-shape");
        return Ok(());
    }
    let r = os.enclosing_radius();
    // fractional x that puts the image two rows away of the two-fold partner in line with the copy
    // the partner (-x, -y) sits just inside the opposite face, so its image with lattice index m = -+2 is
    // (1 + 2 zeta) rows away from the copy; in line with it when -2x + n -+ (1 + 2 zeta) beta = 0
    let beta = c.ratio * c.theta.cos();
    let zeta = 10f64.powf(c.zeta_exp);
    let rows = if c.top { 1. + 2. * zeta } else { -(1. + 2. * zeta) };
    let xi = if c.xi_exp < -100. { 0. } else if c.xi_neg { -(10f64.powf(c.xi_exp)) } else { 10f64.powf(c.xi_exp) };
    let mut x = (c.n_align as f64 + rows * beta) / 2. + xi;
    x = x - (x + 0.5).floor();
    let y = if c.top { 0.5 - zeta } else { -0.5 + zeta };
    let target = -(10f64.powf(c.delta_exp));
    let params = |length: f64| Params { length, ratio: c.ratio, angle: c.theta, x, y, phi: c.phi };
    // cell height between 1.5 R and 2.5 R
    let len_of_h = |h: f64| h / (c.ratio * c.theta.sin());
    let (mut lo, mut hi) = (len_of_h(1.5 * r), len_of_h(2.6 * r));
    let f = |l: f64| far_gap(&os, c.group, &params(l)) - target;
    if !(f(lo) < 0. && f(hi) > 0.) {
        rec.class("aligned/no-bracket");
        return Ok(());
    }
    for _ in 0..80 {
        let mid = 0.5 * (lo + hi);
        if f(mid) > 0. {
            hi = mid;
        } else {
            lo = mid;
        }
    }
    let p = tmpl.set(&params(lo));
    let score = tmpl.score();
    rec.eval(1);
    match score {
        Some(_) => {
            let j = judge_scored(&os, c.group, &p, ctx, rec, "state with a far image in line")?;
            rec.class(&format!("aligned/{}", j.class));
        }
        None => {
            let class = classify_rejected(&os, c.group, &p);
            rec.class(&format!("aligned/{}", class));
            if class == "rejected/only-far-overlap" {
                rec.nontrivial(hash_f64s(&[c.group as f64, p.length, p.ratio, p.angle, p.x, p.y, p.phi]));
                if rec.wants_sample("aligned/only-far-overlap") {
                    rec.sample("aligned/only-far-overlap", || serde_json::json!({"group": geom::GROUP_NAMES[c.group], "shape": c.shape, "params": p, "planted_depth": -target}));
                }
            }
        }
    }
    Ok(())
}

// ------------------------------------------------------------------------------------------------
// histories: the optimiser is the adversary

#[derive(Clone, Debug, Serialize, Deserialize)]
pub struct HistoryCase {
    pub start: StateSpec,
    pub from_initial: bool,
    pub steps: u64,
    pub inner: u64,
    pub kt_start: f64,
    pub kt_ratio: Option<f64>,
    pub max_step: f64,
    pub seed: u64,
}

pub fn history_strat() -> BoxedStrategy<HistoryCase> {
    let start = (0usize..7, any_shape()).prop_flat_map(|(group, shape)| {
        let (area, _) = shape_area_radius(&shape);
        let n = geom::group(group).ops.len() as f64;
        (Just(group), Just(shape), 0.05..0.5f64, mixf(0.3, 1.0, vec![1.0]), angle_for(group), site_mix()).prop_map(move |(group, shape, frac, ratio, angle, (x, y, phi))| {
            let length = (n * area / (frac * ratio * angle.sin())).sqrt();
            StateSpec { group, shape, p: Params { length, ratio, angle, x, y, phi } }
        })
    });
    (
        start,
        any::<bool>(),
        500u64..4000,
        prop_oneof![Just(1000u64), 100u64..1000, 37u64..400],
        prop_oneof![2 => Just(0.), 2 => 0.001..0.5f64],
        prop_oneof![Just(None), (0.0..0.5f64).prop_map(Some)],
        prop_oneof![2 => (-3.0..0.0f64).prop_map(|e| 10f64.powf(e)), 1 => Just(1.0), 1 => Just(0.2)],
        any::<u64>(),
    )
        .prop_map(|(start, from_initial, steps, inner, kt_start, kt_ratio, max_step, seed)| HistoryCase { start, from_initial, steps, inner, kt_start, kt_ratio, max_step, seed })
        .boxed()
}

fn run_history<S>(state: S, os: &OShape, group: usize, c: &HistoryCase, rec: &Rec, ctx: &Ctx) -> Result<(), String>
where
    S: State + Serialize + Clone,
{
    if state.score().is_none() {
        rec.class("history/start-invalid-skipped");
        return Ok(());
    }
    let reader = match statejson::ParamReader::new(&state) {
        Some(r) => r,
        None => {
            rec.class("history/unexpected-basis-skipped");
            return Ok(());
        }
    };
    let probe = Probe::new(state, c.kt_start == 0.);
    let model = probe.model.clone();
    {
        model.lock().unwrap().mode = crate::probe::Mode::Agnostic;
    }
    let mut b = BuildOptimiser::default();
    b.steps(c.steps).inner_steps(c.inner).kt_start(c.kt_start).kt_ratio(Some(c.kt_ratio.unwrap_or(0.1))).max_step_size(c.max_step).seed(c.seed).convergence(None);
    let opt = b.build();
    let result = std::panic::catch_unwind(std::panic::AssertUnwindSafe(|| {
        let out = opt.optimise_state(probe);
        serde_json::to_value(&out).ok()
    }));
    // judge every call that returned a score
    let steps: Vec<(Vec<f64>, Option<f64>)> = {
        let m = model.lock().unwrap_or_else(|e| e.into_inner());
        let mut v: Vec<(Vec<f64>, Option<f64>)> = m.steps.iter().map(|s| (s.proposal.clone(), s.returned)).collect();
        if let Some(i) = &m.initial {
            v.push((i.params.clone(), Some(i.score)));
        }
        v
    };
    let mut scored = 0u64;
    for (params, ret) in steps.iter() {
        if ret.is_none() {
            continue;
        }
        // which handle drives which field was discovered by probing, not assumed from the order of generate_basis()
        let p = match reader.params(params) {
            Some(p) => p,
            None => {
                rec.class("history/unexpected-basis-skipped");
                return Ok(());
            }
        };
        rec.eval(1);
        scored += 1;
        let j = judge_scored(os, group, &p, ctx, rec, "state visited by the optimiser")?;
        if j.nontrivial {
            rec.nontrivial(hash_f64s(&[group as f64, p.length, p.ratio, p.angle, p.x, p.y, p.phi]));
        }
    }
    match result {
        Ok(Some(v)) => {
            // the returned state itself, read from its JSON
            if let Some(p) = statejson::read_params(&v) {
                rec.eval(1);
                let j = judge_scored(os, group, &p, ctx, rec, "state returned by the optimiser")?;
                rec.class(if j.nontrivial { "history/returned-nontrivial" } else { "history/returned" });
            }
        }
        _ => rec.class("history/optimiser-panicked-or-unserialisable"),
    }
    rec.class_n("history/scored-calls", scored);
    Ok(())
}

fn history_oracle(c: &HistoryCase, rec: &Rec, ctx: &Ctx) -> Result<(), String> {
    let spec = &c.start;
    match &spec.shape {
        ShapeSpec::Polygon { .. } | ShapeSpec::Radial { .. } => {
            let shape = statejson::line_shape(&spec.shape).ok_or("shape")?;
            let os = statejson::oshape_of_line(&shape);
            if !oshape_usable(&os) {
                return Ok(());
            }
            let init = packing::PackedState::from_group(shape, &statejson::wg(spec.group)).map_err(|e| e.to_string())?;
            let st = if c.from_initial { init } else { statejson::with_params(&init, &spec.p)? };
            run_history(st, &os, spec.group, c, rec, ctx)
        }
        _ => {
            let shape = statejson::mol_shape(&spec.shape).ok_or("shape")?;
            let os = statejson::oshape_of_mol(&shape);
            if !oshape_usable(&os) {
                return Ok(());
            }
            let init = packing::PackedState::from_group(shape, &statejson::wg(spec.group)).map_err(|e| e.to_string())?;
            let st = if c.from_initial { init } else { statejson::with_params(&init, &spec.p)? };
            run_history(st, &os, spec.group, c, rec, ctx)
        }
    }
}

/// keep only the first site that still fails on its own
fn single_site(c: &TilingCase, fails: &dyn Fn(&TilingCase) -> bool) -> TilingCase {
    for s in c.sites.iter() {
        let one = TilingCase { sites: vec![*s], ..c.clone() };
        if fails(&one) {
            return one;
        }
    }
    c.clone()
}

// ------------------------------------------------------------------------------------------------
// multi-site: states with 2..4 occupied sites (several molecules per asymmetric unit), as `initialise` builds them

fn multi_strat() -> BoxedStrategy<crate::multisite::MultiSpec> {
    crate::multisite::multi_strat(any_shape(), 0.05, 0.75, 2, 4)
}

fn multi_oracle(c: &crate::multisite::MultiSpec, rec: &Rec, ctx: &Ctx) -> Result<(), String> {
    let (score, os, total) = crate::multisite::hard_score(c)?;
    rec.eval(1);
    if !crate::hard::oshape_usable(&os) {
        rec.class("skipped-shape");
        return Ok(());
    }
    let copies = c.copies();
    if total != copies.len() {
        return Err(format!("a state with {} occupied sites of a group of order {} reports {} shapes ({})", c.sites.len(), copies.len() / c.sites.len(), total, c.describe()));
    }
    let lat = c.lattice();
    let class = match score {
        Some(_) => {
            let j = judge_copies(&os, &lat, &copies, &c.describe(), ctx, rec, "state with several occupied sites")?;
            if j.nontrivial {
                rec.nontrivial(crate::engine::hash_json(&serde_json::to_value(c).unwrap()));
            }
            format!("{}sites/{}", c.sites.len(), j.class)
        }
        None => {
            let mut overlap = false;
            geom::tiling_pairs(&os, &lat, &copies, |_, _, _, _, gap, _, _| {
                if gap < -1e-9 {
                    overlap = true;
                }
            });
            format!("{}sites/{}", c.sites.len(), if overlap { "rejected/overlap" } else { "rejected/oracle-sees-no-overlap" })
        }
    };
    rec.class(&class);
    if rec.wants_sample(&class) {
        rec.sample(&class, || serde_json::json!({"case": c, "score": score}));
    }
    Ok(())
}

pub fn parts() -> Vec<PartDef> {
    vec![
        part_min("uniform", 40_000, 2_000_000, |_| uniform_strat(256), tiling_oracle, single_site),
        part_min("thin", 200_000, 12_000_000, |_| thin_strat(512), tiling_oracle, single_site),
        part("contact", 60_000, 3_000_000, |_| contact_strat(), contact_oracle),
        part("aligned-contact", 120_000, 4_000_000, |_| aligned_strat(), aligned_oracle),
        part("histories", 320, 20_000, |_| history_strat(), history_oracle),
        part("multi-site", 300_000, 9_000_000, |_| multi_strat(), multi_oracle),
    ]
}

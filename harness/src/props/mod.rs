//! One module per property: strategies + oracle + non-triviality rule + replay.

use crate::engine::PartDef;

pub mod c01;
pub mod c02;
pub mod c03;
pub mod c04;
pub mod c05;
pub mod c06;
pub mod c07;
pub mod c08;
pub mod c09;
pub mod c10;
pub mod c11;
pub mod c12;
pub mod c18;
pub mod c19;
pub mod c20;
pub mod c13;
pub mod c14;
pub mod c15;
pub mod c16;
pub mod c17;

pub type PropDef = (&'static str, &'static str, Vec<PartDef>, &'static str, Vec<&'static str>);

pub fn lookup(id: &str) -> Option<PropDef> {
    match id {
        "C01" => Some(("C01", c01::TITLE, c01::parts(), c01::RULE, c01::assumptions())),
        "C02" => Some(("C02", c02::TITLE, c02::parts(), c02::RULE, c02::assumptions())),
        "C03" => Some(("C03", c03::TITLE, c03::parts(), c03::RULE, c03::assumptions())),
        "C04" => Some(("C04", c04::TITLE, c04::parts(), c04::RULE, c04::assumptions())),
        "C05" => Some(("C05", c05::TITLE, c05::parts(), c05::RULE, c05::assumptions())),
        "C06" => Some(("C06", c06::TITLE, c06::parts(), c06::RULE, c06::assumptions())),
        "C07" => Some(("C07", c07::TITLE, c07::parts(), c07::RULE, c07::assumptions())),
        "C18" => Some(("C18", c18::TITLE, c18::parts(), c18::RULE, c18::assumptions())),
        "C19" => Some(("C19", c19::TITLE, c19::parts(), c19::RULE, c19::assumptions())),
        "C20" => Some(("C20", c20::TITLE, c20::parts(), c20::RULE, c20::assumptions())),
        "C08" => Some(("C08", c08::TITLE, c08::parts(), c08::RULE, c08::assumptions())),
        "C11" => Some(("C11", c11::TITLE, c11::parts(), c11::RULE, c11::assumptions())),
        "C10" => Some(("C10", c10::TITLE, c10::parts(), c10::RULE, c10::assumptions())),
        "C09" => Some(("C09", c09::TITLE, c09::parts(), c09::RULE, c09::assumptions())),
        "C12" => Some(("C12", c12::TITLE, c12::parts(), c12::RULE, c12::assumptions())),
        "C13" => Some(("C13", c13::TITLE, c13::parts(), c13::RULE, c13::assumptions())),
        "C15" => Some(("C15", c15::TITLE, c15::parts(), c15::RULE, c15::assumptions())),
        "C16" => Some(("C16", c16::TITLE, c16::parts(), c16::RULE, c16::assumptions())),
        "C17" => Some(("C17", c17::TITLE, c17::parts(), c17::RULE, c17::assumptions())),
        "C14" => Some(("C14", c14::TITLE, c14::parts(), c14::RULE, c14::assumptions())),
        _ => None,
    }
}

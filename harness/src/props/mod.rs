//! One module per property: strategies + oracle + non-triviality rule + replay.

use crate::engine::PartDef;

pub mod c14;

pub type PropDef = (&'static str, &'static str, Vec<PartDef>, &'static str, Vec<&'static str>);

pub fn lookup(id: &str) -> Option<PropDef> {
    match id {
        "C14" => Some(("C14", c14::TITLE, c14::parts(), c14::RULE, c14::assumptions())),
        _ => None,
    }
}

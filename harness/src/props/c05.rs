//! C05 — zero-temperature optimisation never lowers the score.

use packing::traits::State;
use proptest::prelude::*;
use serde::{Deserialize, Serialize};

use crate::engine::{hash_json, part, Ctx, PartDef, Rec};
use crate::opt::{landscape_strat, run_script_shadow, same_bits, steps_inner, ForcedPolicy, Landscape, LandscapePolicy, OptCfg, RunOut};
use crate::probe::{Decision, Mode, Probe};
use crate::statejson::{self, ShapeSpec};

pub const TITLE: &str = "Zero-temperature optimisation never lowers the score";
pub const RULE: &str = "cases = optimiser configuration with kt_start = 0 x {kt_finish in {None,0,1e-3,0.1,10}} x {kt_ratio in {None,0,0.1,1}} x steps 1..6000 x inner_steps giving 1..30 loops (multiples, non-multiples, inner > steps) x max_step_size 1e-4..1 x convergence {None,0,1e-6,1} x seed, on (a) synthetic states with 2..8 parameters whose score is a generated landscape (concave + ripple + plateaus + an undefined band), (b) synthetic states with a cyclic script of forced outcomes relative to the current score (better, equal, worse, undefined), (c) real hard and Lennard-Jones states of all groups behind a logging probe, starting from the dilute initial state or from a state compressed by a preceding quench. Oracle: score of the returned state >= score of the input (exact); and the trace of evaluated parameter vectors must be explained by a history in which only proposals scoring at least the current score are ever kept (a trace model that allows every such history — including ones that reject improvements, which is not this property's concern — and nothing else): if none exists, a worse or undefined proposal was kept. Non-trivial = >= 2 inner loops ran and >= 1 strictly worse proposal was seen after the first loop; distinct by hash of the case.";

pub fn assumptions() -> Vec<&'static str> {
    vec![
        "accept/reject outcomes are inferred from the parameter vectors at successive score() calls; steps whose outcome cannot be inferred (two consecutive proposals on one coordinate) are excluded, never guessed",
        "panics are not judged here (C20)",
    ]
}

fn kt_zero_cfg(max_steps: u64, max_loops: u64) -> BoxedStrategy<OptCfg> {
    (
        steps_inner(max_steps, max_loops),
        prop_oneof![Just(None), Just(Some(0.)), Just(Some(1e-3)), Just(Some(0.1)), Just(Some(10.))],
        prop_oneof![Just(None), Just(Some(0.)), Just(Some(0.1)), Just(Some(1.))],
        prop_oneof![(-4.0..0.0f64).prop_map(|e| 10f64.powf(e)), Just(1.0), Just(0.01)],
        prop_oneof![Just(None), Just(Some(0.)), Just(Some(1e-6)), Just(Some(1.))],
        any::<u64>(),
    )
        .prop_map(|((steps, inner), kt_finish, kt_ratio, max_step, convergence, seed)| OptCfg { steps, inner, kt_start: 0., kt_finish, kt_ratio, max_step, convergence, seed })
        .boxed()
}

#[derive(Clone, Debug, Serialize, Deserialize)]
pub struct LandCase {
    pub cfg: OptCfg,
    pub init: Vec<f64>,
    pub land: Landscape,
}

fn land_strat(_: &Ctx) -> BoxedStrategy<LandCase> {
    (2usize..=8)
        .prop_flat_map(|n| (kt_zero_cfg(6000, 100), proptest::collection::vec(0.0..=1.0f64, n), landscape_strat(n, 0., 1.)))
        .prop_map(|(cfg, init, land)| LandCase { cfg, init, land })
        .boxed()
}

/// the C05 judgement on a finished run at kT = 0; returns (loops run, worse-after-first-loop seen).
/// `mono` = first inconsistency of the model that allows exactly what C05 permits (a proposal scoring >= the
/// current state may be accepted or rejected, a worse or unscored one must be rejected).
pub fn judge_zero_temperature(out: &RunOut, mono: &Option<(usize, String)>, cfg: &OptCfg, what: &str, final_score_is_observed: bool) -> Result<(u64, bool), String> {
    let s0 = out.initial.as_ref().map(|c| c.score).ok_or("no initial call")?;
    let inner = cfg.inner_eff().max(1);
    let proposals = out.steps.len() as u64;
    let mut worse_late = false;
    for st in out.steps.iter() {
        let k = st.k as u64;
        if k > cfg.proposals() {
            break;
        }
        if let (Some(base), Some(ret)) = (st.base_score, st.returned) {
            if ret < base && k > inner {
                worse_late = true;
            }
        }
    }
    if let Some((k, msg)) = mono {
        // reported only when the unexplained proposal derives from the previous proposal, which the model had to
        // drop because it scored below the current state or had no score: that proposal was kept. Any other
        // unexplained trace is a corrupted state (C06's subject); C05 then rests on the final-score comparison.
        if *k >= 2 && *k - 1 < out.steps.len() {
            let prev = &out.steps[k - 2];
            let cur = &out.steps[k - 1];
            let near = prev.proposal.iter().zip(cur.proposal.iter()).filter(|(x, y)| x.to_bits() != y.to_bits()).count() <= 1;
            if near {
                return Err(format!(
                    "{}: at kt_start = 0 proposal #{} (score {:?}) was kept although no history in which only proposals scoring at least the current score are accepted allows it (loop {}); {}",
                    what,
                    prev.k,
                    prev.returned,
                    (prev.k as u64 - 1) / inner + 1,
                    msg
                ));
            }
        }
    }
    if out.inconsistency.is_some() && !final_score_is_observed {
        // the forced script answers relative to the Metropolis model's current score, which is unknown here
        return Ok((proposals.min(cfg.proposals()) / inner, worse_late));
    }
    if let Some(Some(fin)) = out.returned_score {
        if fin < s0 {
            return Err(format!("{}: the returned state scores {} which is below the input state's {} although kt_start = 0", what, fin, s0));
        }
    } else if out.panicked.is_none() {
        return Err(format!("{}: the returned state has no defined score", what));
    }
    Ok((proposals.min(cfg.proposals()) / inner, worse_late))
}

fn land_oracle(c: &LandCase, rec: &Rec, _: &Ctx) -> Result<(), String> {
    if c.land.eval(&c.init).is_none() {
        rec.class("skipped-invalid-start");
        return Ok(());
    }
    let bounds: Vec<(f64, f64)> = c.init.iter().map(|_| (0., 1.)).collect();
    let out = run_script_shadow(&c.cfg, &c.init, &bounds, true, true, Mode::Monotone, Box::new(LandscapePolicy(c.land.clone())));
    rec.eval(out.steps.len() as u64 + 1);
    if out.panicked.is_some() {
        rec.class("panicked-not-judged-here");
        return Ok(());
    }
    let (loops, worse_late) = judge_zero_temperature(&out, &out.shadow_inconsistency, &c.cfg, "landscape", true)?;
    finish(rec, "landscape", loops, worse_late, &c.cfg, || serde_json::to_value(c).unwrap());
    Ok(())
}

fn finish(rec: &Rec, kind: &str, loops: u64, worse_late: bool, cfg: &OptCfg, case: impl Fn() -> serde_json::Value) {
    let nt = loops >= 2 && worse_late;
    let class = format!(
        "{}/{}{}{}",
        kind,
        if loops >= 2 { "multi-loop" } else { "single-loop" },
        match (cfg.kt_finish, cfg.kt_ratio) {
            (_, Some(_)) => "/ratio",
            (Some(_), None) => "/finish",
            (None, None) => "/default-ratio",
        },
        if nt { "/worse-seen-late" } else { "" }
    );
    rec.class(&class);
    if nt {
        rec.nontrivial(hash_json(&case()));
    }
    if rec.wants_sample(&class) {
        rec.sample(&class, || case());
    }
}

#[derive(Clone, Debug, Serialize, Deserialize)]
pub struct ForcedCase {
    pub cfg: OptCfg,
    pub n: usize,
    pub decisions: Vec<Decision>,
}

pub fn decision_strat() -> BoxedStrategy<Decision> {
    prop_oneof![
        3 => (-12.0..3.0f64).prop_map(|e| Decision::Better(10f64.powf(e))),
        1 => Just(Decision::Equal),
        4 => (-12.0..3.0f64).prop_map(|e| Decision::Worse(10f64.powf(e))),
        2 => Just(Decision::Invalid),
    ]
    .boxed()
}

fn forced_strat(_: &Ctx) -> BoxedStrategy<ForcedCase> {
    (kt_zero_cfg(4000, 20), 2usize..=8, proptest::collection::vec(decision_strat(), 1..48)).prop_map(|(cfg, n, decisions)| ForcedCase { cfg, n, decisions }).boxed()
}

fn forced_oracle(c: &ForcedCase, rec: &Rec, _: &Ctx) -> Result<(), String> {
    let init = vec![0.5; c.n];
    let bounds = vec![(0., 1.); c.n];
    let policy = ForcedPolicy { decisions: c.decisions.clone(), base: 1.0, proposals: c.cfg.proposals() };
    let out = run_script_shadow(&c.cfg, &init, &bounds, true, true, Mode::Monotone, Box::new(policy));
    rec.eval(out.steps.len() as u64 + 1);
    if out.panicked.is_some() {
        rec.class("panicked-not-judged-here");
        return Ok(());
    }
    if std::env::var("PVH_DEBUG").is_ok() {
        for st in out.steps.iter() {
            eprintln!("k={} prop={:?} ret={:?} n_bases={} base={:?} base_score={:?} expect={:?} outcome={:?}", st.k, st.proposal, st.returned, st.n_bases, st.base, st.base_score, st.expect, st.outcome);
        }
        eprintln!("inconsistency={:?}", out.inconsistency);
    }
    let (loops, worse_late) = judge_zero_temperature(&out, &out.shadow_inconsistency, &c.cfg, "forced script", false)?;
    finish(rec, "forced", loops, worse_late, &c.cfg, || serde_json::to_value(c).unwrap());
    Ok(())
}

#[derive(Clone, Debug, Serialize, Deserialize)]
pub struct RealCase {
    pub cfg: OptCfg,
    pub group: usize,
    pub shape: ShapeSpec,
    pub lj: bool,
    /// steps of a preceding quench that compresses the initial state (0 = start from the dilute initial state)
    #[serde(default)]
    pub warm: u64,
}

fn real_strat(_: &Ctx) -> BoxedStrategy<RealCase> {
    (kt_zero_cfg(2500, 12), 0usize..7, any::<bool>())
        .prop_flat_map(|(cfg, group, lj)| {
            // hard shapes include radial polygons in a small or large unit of length (the initial cell of a shape of
            // radius 1e-3 is shorter than the package's minimum cell length, so its length starts outside its range)
            let scaled = (crate::gen::convex_radial(), (-4.0..3.0f64).prop_map(|e| 10f64.powf(e))).prop_map(|(s, u)| match s {
                ShapeSpec::Radial { radii } => ShapeSpec::Radial { radii: radii.iter().map(|r| r * u).collect() },
                other => other,
            });
            let shape = if lj { crate::gen::mol_shape_spec() } else { prop_oneof![4 => crate::gen::line_shape_spec(), 4 => crate::gen::mol_shape_spec(), 2 => scaled].boxed() };
            (Just(cfg), Just(group), shape, Just(lj), prop_oneof![Just(0u64), Just(2000u64), Just(6000u64)])
        })
        .prop_map(|(cfg, group, shape, lj, warm)| RealCase { cfg, group, shape, lj, warm })
        .boxed()
}

fn run_real<S: State + Serialize + serde::de::DeserializeOwned>(state: S, cfg: &OptCfg, warm: u64) -> Result<RunOut, String> {
    if !state.score().map(|s| s.is_finite()).unwrap_or(false) {
        return Err("skip".to_string());
    }
    let state = crate::opt::warm_start(state, warm, cfg.seed ^ 0x5eed).map_err(|_| "skip".to_string())?;
    let s0 = match state.score() {
        Some(s) if s.is_finite() => s,
        _ => return Err("skip".to_string()),
    };
    let _ = s0;
    let probe = Probe::new(state, true);
    let model = probe.model.clone();
    model.lock().unwrap().mode = Mode::Monotone;
    let cfg2 = cfg.clone();
    let res = std::panic::catch_unwind(std::panic::AssertUnwindSafe(move || {
        let out = cfg2.build().optimise_state(probe);
        let p = crate::probe::params_of_state(&out);
        (p, out)
    }));
    let (panicked, returned_params, keep) = match res {
        Ok((p, o)) => (None, Some(p), Some(o)),
        Err(_) => (Some("panic".to_string()), None, None),
    };
    let (final_cands, steps, inconsistency, initial, calls) = {
        let mut m = model.lock().unwrap_or_else(|e| e.into_inner());
        let fc = m.final_candidates();
        m.finished = true;
        (fc, m.steps.clone(), m.inconsistency.clone(), m.initial.clone(), m.calls)
    };
    let returned_score = keep.as_ref().map(|s| s.score());
    Ok(RunOut { panicked, returned_params, returned_score, calls_during_run: calls, steps, final_cands, inconsistency, initial, log_scores: vec![], shadow_final: vec![], shadow_inconsistency: None, shadow_steps: vec![] })
}

fn real_oracle(c: &RealCase, rec: &Rec, _: &Ctx) -> Result<(), String> {
    let wg = statejson::wg(c.group);
    let out = if c.lj {
        let shape = statejson::lj_shape(&c.shape).ok_or("shape")?;
        run_real(packing::PotentialState::from_group(shape, &wg).map_err(|e| e.to_string())?, &c.cfg, c.warm)
    } else {
        match &c.shape {
            ShapeSpec::Polygon { .. } | ShapeSpec::Radial { .. } => {
                let shape = statejson::line_shape(&c.shape).ok_or("shape")?;
                run_real(packing::PackedState::from_group(shape, &wg).map_err(|e| e.to_string())?, &c.cfg, c.warm)
            }
            _ => {
                let shape = statejson::mol_shape(&c.shape).ok_or("shape")?;
                run_real(packing::PackedState::from_group(shape, &wg).map_err(|e| e.to_string())?, &c.cfg, c.warm)
            }
        }
    };
    let out = match out {
        Ok(o) => o,
        Err(_) => {
            rec.class("skipped-start-without-finite-score");
            return Ok(());
        }
    };
    rec.eval(out.steps.len() as u64 + 1);
    if out.panicked.is_some() {
        rec.class("panicked-not-judged-here");
        return Ok(());
    }
    let (loops, worse_late) = judge_zero_temperature(&out, &out.inconsistency, &c.cfg, if c.lj { "Lennard-Jones state" } else { "hard state" }, true)?;
    let _ = same_bits;
    finish(rec, if c.lj { "real-lj" } else { "real-hard" }, loops, worse_late, &c.cfg, || serde_json::to_value(c).unwrap());
    Ok(())
}

pub fn parts() -> Vec<PartDef> {
    vec![part("landscape", 20_000, 600_000, land_strat, land_oracle), part("forced", 15_000, 450_000, forced_strat, forced_oracle), part("real", 2_500, 75_000, real_strat, real_oracle)]
}

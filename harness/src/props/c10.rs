//! C10 — the CLI writes the best replica, labelled with what was asked for.

use packing::traits::State;
use proptest::prelude::*;
use serde::{Deserialize, Serialize};
use serde_json::Value;

use crate::cli::{self, CliArgs, CliShape};
use crate::engine::{hash_json, part, Ctx, PartDef, Rec};
use crate::geom::{self, Family, P};
use crate::statejson::{self, Params, ShapeSpec};

pub const TITLE: &str = "The CLI writes the best replica, labelled with what was asked for";
pub const RULE: &str = "part cli: (group, shape subcommand with options, potential, step settings) run with replications k = 1..kmax (kmax 2..4). About half of the invocations (a pure function of arguments and thread count) find both output files already present, holding 64 KiB left by an earlier run with the same --outfile. Oracle per run: the score of the written structure (re-read from the .json) equals the maximum of the replica scores reported by the verif-hooks line of each replica and equals the logged 'Final score' (rel 1e-12); across k the written score never decreases (replicas are seeds 0..k-1, so k+1 replicas contain the first k); the JSON records the requested group name, the ITA crystal family of that group for wallpaper and cell, the requested shape (polygon: the documented vertices; circle/trimer: the documented discs or LJ particles with sigma = 2 r), the group's number of operations, and re-reading it yields that many placements. part ladder: one argument set run with 1, 2, 3, 5, 8, ... replications (Fibonacci numbers up to 144; up to 6765 in the thorough tier, beyond the CLI default of 100): the logged score never decreases along the ladder; part ladder-deep: one such ladder up to 6765 replications in every tier. part ordering: vectors of 2..6 generated valid states of one shape; max() and cmp() must agree with the comparison of score(). Non-trivial = a run with k >= 2 and >= 2 distinct replica scores, or an ordering vector with >= 2 distinct scores; distinct by hash of the case.";

pub fn assumptions() -> Vec<&'static str> {
    vec!["clause 'highest-scoring among its replicas' is decided exactly through the guarded hook (one line per replica); prefix monotonicity does not depend on the hook", "runs that exit non-zero are C20's subject and are skipped here"]
}

#[derive(Clone, Debug, Serialize, Deserialize)]
pub struct CliCase {
    pub args: CliArgs,
    pub kmax: i64,
}

fn cli_strat(_: &Ctx) -> BoxedStrategy<CliCase> {
    let shape = prop_oneof![
        3 => (3i64..=10).prop_map(|s| CliShape::Polygon { sides: Some(s) }),
        1 => Just(CliShape::Polygon { sides: None }),
        2 => Just(CliShape::Circle),
        1 => Just(CliShape::Trimer { distance: None, angle: None, radius: None }),
        3 => (0.3..1.5f64, 20.0..180.0f64, 0.3..1.0f64).prop_map(|(distance, angle, radius)| CliShape::Trimer { distance: Some(distance), angle: Some(angle), radius: Some(radius) }),
    ];
    (0usize..7, shape, any::<bool>(), 2i64..=4, prop_oneof![Just(100i64), Just(300), Just(1000)], prop_oneof![Just(100i64), Just(1000)], prop_oneof![Just(None), Just(Some(0.01f64)), Just(Some(0.2))], prop_oneof![Just(None), Just(Some(0.05f64)), Just(Some(0.3))])
        .prop_map(|(g, shape, lj, kmax, steps, inner, kt_start, max_step)| {
            let lj = lj && !matches!(shape, CliShape::Polygon { .. });
            CliCase {
                args: CliArgs {
                    group: geom::GROUP_NAMES[g].to_string(),
                    shape,
                    potential: if lj { Some("LJ".to_string()) } else { None },
                    replications: None,
                    steps: Some(steps),
                    inner_steps: Some(inner),
                    kt_start,
                    kt_finish: None,
                    kt_ratio: None,
                    max_step_size: max_step,
                    convergence: None,
                    verbosity: 0,
                    start_config: None,
                },
                kmax,
            }
        })
        .boxed()
}

fn close(a: f64, b: f64) -> bool {
    (a - b).abs() <= 1e-12 * a.abs().max(b.abs()).max(1e-300)
}

fn spec_of(shape: &CliShape) -> ShapeSpec {
    match shape {
        CliShape::Polygon { sides } => ShapeSpec::Polygon { sides: sides.unwrap_or(4) as usize },
        CliShape::Circle => ShapeSpec::Circle,
        CliShape::Trimer { distance, angle, radius } => ShapeSpec::Trimer { radius: radius.unwrap_or(0.637556), angle: angle.unwrap_or(120.), distance: distance.unwrap_or(1.) },
    }
}

fn check_labels(v: &Value, c: &CliCase, lj: bool) -> Result<(), String> {
    let gi = geom::group_index(&c.args.group).ok_or("group")?;
    let g = geom::group(gi);
    let name = v["wallpaper"]["name"].as_str().unwrap_or("<missing>");
    if name != c.args.group {
        return Err(format!("the structure written for group {} is labelled \"{}\"", c.args.group, name));
    }
    let fam = match g.family {
        Family::Oblique => "Monoclinic",
        Family::Rectangular => "Orthorhombic",
    };
    for (what, got) in [("wallpaper.family", v["wallpaper"]["family"].as_str()), ("cell.family", v["cell"]["family"].as_str())].iter() {
        if *got != Some(fam) {
            return Err(format!("{} of the structure written for {} is {:?}, the group's crystal family is {}", what, c.args.group, got, fam));
        }
    }
    let nsym = v["occupied_sites"][0]["wyckoff"]["symmetries"].as_array().map(|a| a.len()).unwrap_or(0);
    if nsym != g.ops.len() {
        return Err(format!("the written structure lists {} symmetry operations, {} has {}", nsym, c.args.group, g.ops.len()));
    }
    if v["occupied_sites"].as_array().map(|a| a.len()) != Some(1) {
        return Err("the written structure does not have exactly one occupied site".to_string());
    }
    // shape
    let spec = spec_of(&c.args.shape);
    let items = v["shape"]["items"].as_array().ok_or("shape.items missing")?;
    match (&spec, lj) {
        (ShapeSpec::Polygon { sides }, _) => {
            let want = geom::regular_polygon(*sides);
            if items.len() != *sides {
                return Err(format!("a polygon with {} sides was requested, the written shape has {} edges", sides, items.len()));
            }
            for (k, it) in items.iter().enumerate() {
                let sx = it["start"][0].as_f64().unwrap_or(f64::NAN);
                let sy = it["start"][1].as_f64().unwrap_or(f64::NAN);
                if !((sx - want[k].x).abs() <= 1e-12 && (sy - want[k].y).abs() <= 1e-12) {
                    return Err(format!("vertex {} of the written {}-gon is ({}, {}), a regular polygon has ({}, {})", k, sides, sx, sy, want[k].x, want[k].y));
                }
            }
        }
        (s, _) => {
            let want: Vec<(P, f64)> = match s {
                ShapeSpec::Circle => vec![(P::new(0., 0.), 1.0)],
                ShapeSpec::Trimer { radius, angle, distance } => geom::trimer_discs(*radius, *angle, *distance),
                _ => unreachable!(),
            };
            if items.len() != want.len() {
                return Err(format!("the written shape has {} particles, the request has {}", items.len(), want.len()));
            }
            for (k, it) in items.iter().enumerate() {
                let px = it["position"][0].as_f64().unwrap_or(f64::NAN);
                let py = it["position"][1].as_f64().unwrap_or(f64::NAN);
                let size = if lj { it["sigma"].as_f64().unwrap_or(f64::NAN) / 2. } else { it["radius"].as_f64().unwrap_or(f64::NAN) };
                // the LJ circle is documented as sigma = 1 (radius 1/2)
                let want_r = if lj && matches!(s, ShapeSpec::Circle) { 0.5 } else { want[k].1 };
                if !((px - want[k].0.x).abs() <= 1e-12 && (py - want[k].0.y).abs() <= 1e-12 && (size - want_r).abs() <= 1e-12) {
                    return Err(format!("particle {} of the written shape is at ({}, {}) with radius {}, the request gives ({}, {}) with radius {}", k, px, py, size, want[k].0.x, want[k].0.y, want_r));
                }
            }
        }
    }
    Ok(())
}

fn reread_score(json: &str, c: &CliCase, lj: bool) -> Result<(Option<f64>, usize, Option<Params>), String> {
    macro_rules! go {
        ($t:ty) => {{
            let s: $t = serde_json::from_str(json).map_err(|e| format!("the written .json does not read back: {}", e))?;
            (s.score(), s.relative_positions().count(), statejson::params_of(&s))
        }};
    }
    Ok(match (&c.args.shape, lj) {
        (CliShape::Polygon { .. }, _) => go!(packing::PackedState<packing::LineShape>),
        (_, false) => go!(packing::PackedState<packing::MolecularShape2>),
        (_, true) => go!(packing::PotentialState<packing::LJShape2>),
    })
}

fn cli_oracle(c: &CliCase, rec: &Rec, ctx: &Ctx) -> Result<(), String> {
    let lj = c.args.potential.as_deref() == Some("LJ");
    let gi = geom::group_index(&c.args.group).ok_or("group")?;
    let order = geom::group(gi).ops.len();
    let mut prev: Option<f64> = None;
    let mut nt = false;
    for k in 1..=c.kmax {
        let mut a = c.args.clone();
        a.replications = Some(k);
        let out = cli::run_args(ctx, &a, Some(((k as usize) % 3) + 1))?;
        rec.eval(1);
        if out.timed_out {
            crate::mark_broken();
            return Ok(());
        }
        if out.status != Some(0) {
            rec.class("cli/nonzero-exit-skipped");
            return Ok(());
        }
        let argv = a.to_argv(std::path::Path::new("out")).join(" ");
        let json = out.json.clone().ok_or("exit 0 without .json")?;
        let v: Value = serde_json::from_str(&json).map_err(|e| format!("written .json does not parse: {}", e))?;
        check_labels(&v, c, lj).map_err(|e| format!("`packing {}`: {}", argv, e))?;
        let (score, placements, _) = reread_score(&json, c, lj)?;
        if placements != order {
            return Err(format!("`packing {}`: re-reading the written structure yields {} placements, the group has {} copies", argv, placements, order));
        }
        let score = score.ok_or_else(|| format!("`packing {}`: the written structure has no defined score", argv))?;
        let logged = out.final_score().ok_or_else(|| format!("`packing {}`: no 'Final score' line on stderr", argv))?;
        if !close(score, logged) {
            return Err(format!("`packing {}`: logged final score {} but the written structure scores {}", argv, logged, score));
        }
        let reps = out.replica_scores();
        if reps.len() != k as usize {
            return Err(format!("`packing {}`: {} replica reports for {} replications (is the binary built with --features verif-hooks?)", argv, reps.len(), k));
        }
        let mut best = f64::NEG_INFINITY;
        let mut distinct = std::collections::BTreeSet::new();
        for r in reps.iter() {
            match r {
                Some(s) => {
                    if *s > best {
                        best = *s;
                    }
                    distinct.insert(s.to_bits());
                }
                None => return Err(format!("`packing {}`: a replica ended without a defined score", argv)),
            }
        }
        if !close(score, best) {
            return Err(format!("`packing {}`: the written structure scores {} but the best of its {} replicas scores {} (replica scores {:?})", argv, score, k, best, reps));
        }
        if let Some(p) = prev {
            if score < p && !close(score, p) {
                return Err(format!("`packing {}`: {} replications give {} which is lower than the {} obtained with {} replications", argv, k, score, p, k - 1));
            }
        }
        prev = Some(score);
        if k >= 2 && distinct.len() >= 2 {
            nt = true;
        }
    }
    let class = format!("cli/{}/{}{}", if lj { "lj" } else { "hard" }, c.args.group, if nt { "/distinct-replicas" } else { "" });
    rec.class(&class);
    if nt {
        rec.nontrivial(hash_json(&serde_json::to_value(c).unwrap()));
    }
    if rec.wants_sample(&class) {
        rec.sample(&class, || serde_json::json!({"case": c, "final_score": prev}));
    }
    Ok(())
}

// ------------------------------------------------------------------------------------------------

#[derive(Clone, Debug, Serialize, Deserialize)]
pub struct OrderCase {
    pub group: usize,
    pub lj: bool,
    pub sides: usize,
    /// scale factors of the initial cell (>= 1 keeps the state valid) and sites
    pub states: Vec<(f64, f64, f64, f64)>,
}

fn order_strat(_: &Ctx) -> BoxedStrategy<OrderCase> {
    // scales: independent values, repeated values (ties) and values that differ in the 8th..14th digit (a tolerant
    // comparison would call them equal)
    (
        0usize..7,
        any::<bool>(),
        3usize..=8,
        proptest::collection::vec((prop_oneof![3 => 1.0..3.0f64, 1 => Just(1.0), 1 => Just(2.0), 2 => (-14.0..-7.0f64).prop_map(|e| 2.0 * (1. + 10f64.powf(e))), 1 => (-14.0..-7.0f64).prop_map(|e| 1.0 + 10f64.powf(e))], -0.5..0.5f64, -0.5..0.5f64, 0.0..6.28f64), 2..=6),
    )
        .prop_map(|(group, lj, sides, states)| OrderCase { group, lj, sides, states })
        .boxed()
}

fn order_check<S: State + Clone>(states: Vec<S>) -> Result<usize, String> {
    let scores: Vec<f64> = states.iter().map(|s| s.score().unwrap_or(f64::NAN)).collect();
    if scores.iter().any(|s| !s.is_finite()) {
        return Ok(0);
    }
    let best = scores.iter().cloned().fold(f64::NEG_INFINITY, f64::max);
    let m = states.iter().cloned().max().ok_or("max() of a non-empty vector is None")?;
    let ms = m.score().unwrap_or(f64::NAN);
    if ms.to_bits() != best.to_bits() {
        return Err(format!("max() picks a state scoring {} although the scores are {:?}", ms, scores));
    }
    for i in 0..states.len() {
        for j in 0..states.len() {
            let want = scores[i].partial_cmp(&scores[j]).unwrap();
            let got = states[i].cmp(&states[j]);
            if got != want {
                return Err(format!("cmp() of states scoring {} and {} is {:?}", scores[i], scores[j], got));
            }
            if (states[i] == states[j]) != (scores[i] == scores[j]) {
                return Err(format!("== of states scoring {} and {} is {}", scores[i], scores[j], states[i] == states[j]));
            }
        }
    }
    let mut d: Vec<u64> = scores.iter().map(|s| s.to_bits()).collect();
    d.sort();
    d.dedup();
    Ok(d.len())
}

fn order_oracle(c: &OrderCase, rec: &Rec, _: &Ctx) -> Result<(), String> {
    let wg = statejson::wg(c.group);
    rec.eval(c.states.len() as u64);
    let distinct = if c.lj {
        let init = packing::PotentialState::from_group(packing::LJShape2::circle(), &wg).map_err(|e| e.to_string())?;
        let p0 = statejson::params_of(&init).ok_or("params")?;
        let v: Result<Vec<_>, String> = c.states.iter().map(|(s, x, y, phi)| statejson::with_params(&init, &Params { length: p0.length * (s + 1.), x: *x, y: *y, phi: *phi, ..p0.clone() })).collect();
        order_check(v?)?
    } else {
        let init = packing::PackedState::from_group(packing::LineShape::polygon(c.sides).map_err(|e| e.to_string())?, &wg).map_err(|e| e.to_string())?;
        let p0 = statejson::params_of(&init).ok_or("params")?;
        let v: Result<Vec<_>, String> = c.states.iter().map(|(s, x, y, phi)| statejson::with_params(&init, &Params { length: p0.length * s, x: *x, y: *y, phi: *phi, ..p0.clone() })).collect();
        order_check(v?)?
    };
    let class = format!("ordering/{}{}", if c.lj { "lj" } else { "hard" }, if distinct >= 2 { "/distinct" } else if distinct == 0 { "/skipped-undefined" } else { "/ties" });
    rec.class(&class);
    if distinct >= 2 {
        rec.nontrivial(hash_json(&serde_json::to_value(c).unwrap()));
    }
    if rec.wants_sample(&class) {
        rec.sample(&class, || serde_json::to_value(c).unwrap());
    }
    Ok(())
}

// ------------------------------------------------------------------------------------------------
// replication ladder: one argument set run with k = 1, 2, 3, 5, 8, ... replications (Fibonacci numbers, up to 144 in the
// quick tier and 6765 in the thorough tier); the written score may never decrease along the ladder

#[derive(Clone, Debug, Serialize, Deserialize)]
pub struct LadderCase {
    pub group: usize,
    pub lj: bool,
    pub steps: i64,
}

fn ladder_strat(_: &Ctx) -> BoxedStrategy<LadderCase> {
    (0usize..7, any::<bool>(), prop_oneof![Just(0i64), Just(50i64)]).prop_map(|(group, lj, steps)| LadderCase { group, lj, steps }).boxed()
}

fn ladder_oracle(c: &LadderCase, rec: &Rec, ctx: &Ctx) -> Result<(), String> {
    let top: i64 = if ctx.tier == crate::engine::Tier::Quick { 144 } else { 6765 };
    ladder_to(c, rec, ctx, top, 8)
}

// one ladder up to 6765 replications in every tier (the quick tier's only visit beyond a few hundred replications)
fn deep_ladder_oracle(c: &LadderCase, rec: &Rec, ctx: &Ctx) -> Result<(), String> {
    ladder_to(c, rec, ctx, 6765, 16)
}

fn ladder_to(c: &LadderCase, rec: &Rec, ctx: &Ctx, top: i64, threads: usize) -> Result<(), String> {
    let mut ks = vec![1i64, 2];
    while *ks.last().unwrap() < top {
        let n = ks[ks.len() - 1] + ks[ks.len() - 2];
        ks.push(n);
    }
    let mut prev: Option<(i64, f64)> = None;
    for k in ks.iter() {
        let a = CliArgs {
            group: geom::GROUP_NAMES[c.group].to_string(),
            shape: CliShape::Circle,
            potential: if c.lj { Some("LJ".to_string()) } else { None },
            replications: Some(*k),
            steps: Some(c.steps),
            inner_steps: Some(50),
            kt_start: Some(0.05),
            kt_finish: None,
            kt_ratio: None,
            max_step_size: None,
            convergence: None,
            verbosity: 0,
            start_config: None,
        };
        let dir = cli::scratch_dir(ctx);
        let outfile = dir.join("out");
        let r = cli::run(ctx, &a.to_argv(&outfile), &outfile, Some(threads), 900);
        let _ = std::fs::remove_dir_all(&dir);
        let out = r?;
        rec.eval(1);
        if out.timed_out {
            crate::mark_broken();
            return Ok(());
        }
        if out.status != Some(0) {
            rec.class("ladder/nonzero-exit-skipped");
            return Ok(());
        }
        let score = out.final_score().ok_or("no 'Final score' line")?;
        if let Some((pk, ps)) = prev {
            if score < ps && !close(score, ps) {
                return Err(format!("`packing {}`: {} replications give {} which is lower than the {} obtained with {} replications", a.to_argv(std::path::Path::new("out")).join(" "), k, score, ps, pk));
            }
        }
        prev = Some((*k, score));
    }
    let class = format!("ladder/{}/up-to-{}", if c.lj { "lj" } else { "hard" }, top);
    rec.class(&class);
    rec.nontrivial(hash_json(&serde_json::to_value(c).unwrap()));
    if rec.wants_sample(&class) {
        rec.sample(&class, || serde_json::json!({"case": c, "ladder": ks, "final": prev}));
    }
    Ok(())
}

pub fn parts() -> Vec<PartDef> {
    vec![
        part("cli", 400, 6_000, cli_strat, cli_oracle),
        part("ordering", 20_000, 600_000, order_strat, order_oracle),
        crate::engine::part_opts("ladder", 8, 8, ladder_strat, ladder_oracle, |c: &LadderCase, _: &dyn Fn(&LadderCase) -> bool| c.clone(), crate::engine::PartOpts { max_shards: 2, max_shrink_iters: 4 }),
        crate::engine::part_opts("ladder-deep", 1, 2, ladder_strat, deep_ladder_oracle, |c: &LadderCase, _: &dyn Fn(&LadderCase) -> bool| c.clone(), crate::engine::PartOpts { max_shards: 1, max_shrink_iters: 2 }),
    ]
}

//! C19 — no Monte-Carlo move is larger than the configured maximum step.

use std::f64::consts::PI;

use packing::traits::State;
use proptest::prelude::*;
use serde::{Deserialize, Serialize};

use crate::engine::{hash_json, part, Ctx, PartDef, Rec};
use crate::opt::{run_script, steps_inner, OptCfg};
use crate::probe::{CallInfo, Policy, Probe, StepRec};
use crate::statejson::{self, ShapeSpec};

pub const TITLE: &str = "No Monte-Carlo move is larger than the configured maximum step";
pub const RULE: &str = "part scripted: synthetic states with 2..8 parameters whose ranges are log-uniform between 1e-3 and 1e3 wide, max_step_size 0 and 1e-7..1, 1..30 inner loops, any kT; the score script fixes the rejection pattern of every loop (0%, 25%, 75%, 100% or a generated bit pattern: accepted proposals get an ever increasing score, rejected ones no score), so the step-size adaptation sees every rejection history. part freeze-thaw: a one-parameter state; every proposal of the first m*inner (+0..2) inner loops is rejected (m in 1..12), every proposal of the following 2..4 loops is accepted; inner in {1..3000} (thorough: up to 20000, i.e. histories of up to 5e9 proposals); the largest move seen in the whole run is compared with the limit. part real: real hard and Lennard-Jones states of all groups with the package's own ranges. Oracle: for every proposal whose base state is identified from the trace: at most one coordinate differs and |proposal - base| <= max_step_size * (max - min)/2 * (1+1e-12) (clamping can only shorten a move; the distance is taken to the nearest of the candidate bases and of all values that coordinate has held earlier in the run, so a move is never over-reported and a restore to an older value — C06's subject — is not mistaken for a long move). Non-trivial = a judged step in loop >= 2 that follows a loop with fewer than 100% rejections; distinct by hash of the case.";

pub fn assumptions() -> Vec<&'static str> {
    vec!["real-state ranges are the statement's: length [0.01, start], ratio [0.1, start], angle [pi/6, pi/2], x,y [-1/2,1/2], orientation [0, 2pi]; parameters are read in the order of generate_basis()"]
}

/// accepted proposals score higher than anything before, rejected ones have no score
pub struct RatePolicy {
    pub patterns: Vec<Vec<bool>>,
    pub inner: u64,
    pub proposals: u64,
}

impl Policy for RatePolicy {
    fn decide(&mut self, _params: &[f64], info: &CallInfo) -> Option<f64> {
        let k = info.call as u64;
        if k == 0 || k > self.proposals || info.finished {
            return Some(k as f64);
        }
        let l = (((k - 1) / self.inner.max(1)) as usize) % self.patterns.len();
        let pat = &self.patterns[l];
        let within = ((k - 1) % self.inner.max(1)) as usize;
        if pat[within % pat.len()] {
            Some(k as f64)
        } else {
            None
        }
    }
}

#[derive(Clone, Debug, Serialize, Deserialize)]
pub struct StepCase {
    pub cfg: OptCfg,
    pub bounds: Vec<(f64, f64)>,
    pub init_frac: Vec<f64>,
    /// per loop: accept pattern (true = accept)
    pub patterns: Vec<Vec<bool>>,
}

fn pattern() -> BoxedStrategy<Vec<bool>> {
    prop_oneof![
        Just(vec![true]),
        Just(vec![true, true, true, false]),
        Just(vec![false, false, false, true]),
        Just(vec![false]),
        proptest::collection::vec(any::<bool>(), 1..16),
    ]
    .boxed()
}

fn script_strat(_: &Ctx) -> BoxedStrategy<StepCase> {
    (2usize..=8)
        .prop_flat_map(|n| {
            (
                steps_inner(6000, 100),
                prop_oneof![2 => Just(0.), 1 => (-3.0..1.0f64).prop_map(|e| 10f64.powf(e))],
                prop_oneof![Just(None), Just(Some(0.)), Just(Some(0.5))],
                prop_oneof![4 => (-7.0..0.0f64).prop_map(|e| 10f64.powf(e)), 1 => Just(1.0), 1 => Just(0.01), 1 => Just(0.), 1 => Just(5.0e-5)],
                any::<u64>(),
                proptest::collection::vec((-100.0..100.0f64, (-3.0..3.0f64).prop_map(|e| 10f64.powf(e))), n),
                proptest::collection::vec(0.0..=1.0f64, n),
                proptest::collection::vec(pattern(), 1..8),
            )
        })
        .prop_map(|((steps, inner), kt_start, kt_ratio, max_step, seed, b, init_frac, patterns)| StepCase {
            cfg: OptCfg { steps, inner, kt_start, kt_finish: None, kt_ratio, max_step, convergence: if seed % 4 == 0 { Some(1e-6) } else { None }, seed },
            bounds: b.into_iter().map(|(lo, w)| (lo, lo + w)).collect(),
            init_frac,
            patterns,
        })
        .boxed()
}

/// returns (judged steps, non-trivial?)
fn judge_steps(steps: &[StepRec], proposals: u64, inner: u64, max_step: f64, ranges: &[f64], stop_at: Option<usize>, what: &str) -> Result<(u64, bool), String> {
    let mut judged = 0u64;
    let mut nt = false;
    let mut loop_had_accept = vec![false; (proposals / inner.max(1) + 2) as usize];
    // every value each coordinate has held in an evaluated state so far: a move is measured from the nearest of
    // them, so that a restore to an older value (C06's subject) is not reported here as an over-long move
    let mut seen: Vec<Vec<f64>> = vec![Vec::new(); ranges.len()];
    let mut remember = |seen: &mut Vec<Vec<f64>>, v: &[f64]| {
        for (i, x) in v.iter().enumerate() {
            if i < seen.len() {
                let pos = seen[i].partition_point(|y| y < x);
                if pos >= seen[i].len() || seen[i][pos] != *x {
                    seen[i].insert(pos, *x);
                }
            }
        }
    };
    if let Some(first) = steps.first() {
        if let Some(b) = &first.base {
            remember(&mut seen, b);
        }
    }
    for st in steps.iter() {
        let k = st.k as u64;
        if k > proposals {
            break;
        }
        if let Some(s) = stop_at {
            if st.k >= s {
                break;
            }
        }
        let l = ((k - 1) / inner.max(1)) as usize;
        if st.outcome == Some(true) {
            loop_had_accept[l] = true;
        }
        if st.n_bases == 0 {
            remember(&mut seen, &st.proposal);
            continue;
        }
        if let Some(i) = st.changed {
            let x = st.proposal[i];
            // the new value is the rounded sum of the old value and the move: the distance between the two stored
            // doubles can exceed the move itself by an ulp of the value
            let limit = max_step * ranges[i] / 2. * (1. + 1e-12) + 2. * f64::EPSILON * x.abs();
            judged += 1;
            let pos = seen[i].partition_point(|y| *y < x);
            let mut nearest = st.delta_min;
            if pos < seen[i].len() {
                nearest = nearest.min((seen[i][pos] - x).abs());
            }
            if pos > 0 {
                nearest = nearest.min((seen[i][pos - 1] - x).abs());
            }
            if nearest > limit {
                return Err(format!(
                    "{}: proposal #{} (inner loop {}) moves parameter {} by {:e} (measured from the nearest value that parameter has held so far); max_step_size * range / 2 = {} * {} / 2 = {:e} ({:.1} times the configured maximum)",
                    what,
                    k,
                    l + 1,
                    i,
                    nearest,
                    max_step,
                    ranges[i],
                    limit,
                    nearest / limit
                ));
            }
            if l >= 1 && loop_had_accept[l - 1] {
                nt = true;
            }
        }
        remember(&mut seen, &st.proposal);
    }
    Ok((judged, nt))
}

fn script_oracle(c: &StepCase, rec: &Rec, _: &Ctx) -> Result<(), String> {
    let init: Vec<f64> = c.bounds.iter().zip(c.init_frac.iter()).map(|((lo, hi), f)| lo + f * (hi - lo)).collect();
    let ranges: Vec<f64> = c.bounds.iter().map(|(lo, hi)| hi - lo).collect();
    let inner = c.cfg.inner_eff().max(1);
    let policy = RatePolicy { patterns: c.patterns.clone(), inner, proposals: c.cfg.proposals() };
    let out = run_script(&c.cfg, &init, &c.bounds, c.cfg.kt_start == 0., true, Box::new(policy));
    rec.eval(out.steps.len() as u64 + 1);
    if out.panicked.is_some() {
        rec.class("panicked-not-judged-here");
        return Ok(());
    }
    let stop = out.inconsistency.as_ref().map(|i| i.0);
    let (judged, nt) = judge_steps(&out.steps, c.cfg.proposals(), inner, c.cfg.max_step, &ranges, stop, "synthetic state")?;
    let loops = c.cfg.loops();
    let class = format!("scripted/{}{}", if loops >= 2 { "multi-loop" } else { "single-loop" }, if nt { "/after-accepting-loop" } else { "" });
    rec.class(&class);
    rec.class_n("judged-steps", judged);
    if stop.is_some() {
        rec.class("scripted/trace-inconsistent-judged-up-to-there");
    }
    if nt {
        rec.nontrivial(hash_json(&serde_json::to_value(c).unwrap()));
    }
    if rec.wants_sample(&class) {
        rec.sample(&class, || serde_json::to_value(c).unwrap());
    }
    Ok(())
}

#[derive(Clone, Debug, Serialize, Deserialize)]
pub struct RealCase {
    pub cfg: OptCfg,
    pub group: usize,
    pub shape: ShapeSpec,
    pub lj: bool,
    #[serde(default)]
    pub warm: u64,
}

fn real_strat(_: &Ctx) -> BoxedStrategy<RealCase> {
    (
        steps_inner(3000, 12),
        prop_oneof![Just(0.), (-3.0..0.0f64).prop_map(|e| 10f64.powf(e))],
        prop_oneof![(-3.0..0.0f64).prop_map(|e| 10f64.powf(e)), Just(1.0), Just(0.01)],
        any::<u64>(),
        0usize..7,
        any::<bool>(),
    )
        .prop_flat_map(|((steps, inner), kt_start, max_step, seed, group, lj)| {
            let shape = if lj { crate::gen::mol_shape_spec() } else { prop_oneof![crate::gen::line_shape_spec(), crate::gen::mol_shape_spec()].boxed() };
            (Just(OptCfg { steps, inner, kt_start, kt_finish: None, kt_ratio: Some(0.1), max_step, convergence: None, seed }), Just(group), shape, Just(lj), prop_oneof![Just(0u64), Just(2000u64), Just(6000u64)], prop_oneof![3 => Just(None), 1 => Just(Some(1e-6)), 1 => Just(Some(0.))])
        })
        .prop_map(|(mut cfg, group, shape, lj, warm, convergence)| {
            cfg.convergence = convergence;
            RealCase { cfg, group, shape, lj, warm }
        })
        .boxed()
}

fn judge_real<S: State + Serialize + serde::de::DeserializeOwned>(state: S, group: usize, cfg: &OptCfg, warm: u64, rec: &Rec) -> Result<Option<(u64, bool)>, String> {
    if !state.score().map(|s| s.is_finite()).unwrap_or(false) {
        return Ok(None);
    }
    let state = match crate::opt::warm_start(state, warm, cfg.seed ^ 0x5eed) {
        Ok(s) => s,
        Err(_) => return Ok(None),
    };
    if !state.score().map(|s| s.is_finite()).unwrap_or(false) {
        return Ok(None);
    }
    let _ = group;
    let init = crate::probe::params_of_state(&state);
    // the allowed range of each handle, by the field it drives (discovered by probing, not by position)
    let reader = match statejson::ParamReader::new(&state) {
        Some(r) => r,
        None => return Ok(None),
    };
    let p0 = match reader.params(&init) {
        Some(p) => p,
        None => return Ok(None),
    };
    let by_field = [p0.length - 0.01, p0.ratio - 0.1, PI / 2. - PI / 6., 1., 1., 2. * PI];
    let mut ranges: Vec<f64> = Vec::new();
    for f in reader.field_of.iter() {
        match f {
            Some(f) => ranges.push(by_field[*f]),
            None => return Ok(None),
        }
    }
    let probe = Probe::new(state, cfg.kt_start == 0.);
    let model = probe.model.clone();
    {
        let mut m = model.lock().unwrap();
        m.mode = crate::probe::Mode::Agnostic;
    }
    let cfg2 = cfg.clone();
    let res = std::panic::catch_unwind(std::panic::AssertUnwindSafe(move || {
        let _ = cfg2.build().optimise_state(probe);
    }));
    if res.is_err() {
        return Ok(None);
    }
    let m = model.lock().unwrap_or_else(|e| e.into_inner());
    rec.eval(m.steps.len() as u64 + 1);
    let stop = m.inconsistency.as_ref().map(|i| i.0);
    let r = judge_steps(&m.steps, cfg.proposals(), cfg.inner_eff().max(1), cfg.max_step, &ranges, stop, "real state")?;
    Ok(Some(r))
}

fn real_oracle(c: &RealCase, rec: &Rec, _: &Ctx) -> Result<(), String> {
    let wg = statejson::wg(c.group);
    let r = if c.lj {
        let shape = statejson::lj_shape(&c.shape).ok_or("shape")?;
        judge_real(packing::PotentialState::from_group(shape, &wg).map_err(|e| e.to_string())?, c.group, &c.cfg, c.warm, rec)?
    } else {
        match &c.shape {
            ShapeSpec::Polygon { .. } | ShapeSpec::Radial { .. } => {
                let shape = statejson::line_shape(&c.shape).ok_or("shape")?;
                judge_real(packing::PackedState::from_group(shape, &wg).map_err(|e| e.to_string())?, c.group, &c.cfg, c.warm, rec)?
            }
            _ => {
                let shape = statejson::mol_shape(&c.shape).ok_or("shape")?;
                judge_real(packing::PackedState::from_group(shape, &wg).map_err(|e| e.to_string())?, c.group, &c.cfg, c.warm, rec)?
            }
        }
    };
    match r {
        None => rec.class("real/skipped"),
        Some((judged, nt)) => {
            let class = format!("real/{}{}", if c.lj { "lj" } else { "hard" }, if nt { "/after-accepting-loop" } else { "" });
            rec.class(&class);
            rec.class_n("judged-steps", judged);
            if nt {
                rec.nontrivial(hash_json(&serde_json::to_value(c).unwrap()));
            }
            if rec.wants_sample(&class) {
                rec.sample(&class, || serde_json::to_value(c).unwrap());
            }
        }
    }
    Ok(())
}

// ------------------------------------------------------------------------------------------------
// freeze-thaw: very long histories.  A one-parameter state without any bookkeeping per call (so that 1e9 proposals
// cost about a minute): every proposal of the first `freeze_loops` inner loops is rejected, every later one accepted.

pub struct LeanStats {
    calls: std::sync::atomic::AtomicU64,
    freeze_calls: u64,
    cur_bits: std::sync::atomic::AtomicU64,
    max_move_bits: std::sync::atomic::AtomicU64,
    max_move_call: std::sync::atomic::AtomicU64,
}

pub struct Lean {
    val: packing::SharedValue,
    bounds: (f64, f64),
    stats: std::sync::Arc<LeanStats>,
}

impl Clone for Lean {
    fn clone(&self) -> Lean {
        Lean { val: packing::SharedValue::new(self.val.get_value()), bounds: self.bounds, stats: self.stats.clone() }
    }
}
impl std::fmt::Debug for Lean {
    fn fmt(&self, f: &mut std::fmt::Formatter) -> std::fmt::Result {
        write!(f, "Lean({})", self.val.get_value())
    }
}
impl PartialEq for Lean {
    fn eq(&self, _: &Lean) -> bool {
        true
    }
}
impl Eq for Lean {}
impl PartialOrd for Lean {
    fn partial_cmp(&self, _: &Lean) -> Option<std::cmp::Ordering> {
        Some(std::cmp::Ordering::Equal)
    }
}
impl Ord for Lean {
    fn cmp(&self, _: &Lean) -> std::cmp::Ordering {
        std::cmp::Ordering::Equal
    }
}
impl Serialize for Lean {
    fn serialize<S: serde::Serializer>(&self, s: S) -> Result<S::Ok, S::Error> {
        self.val.get_value().serialize(s)
    }
}
impl packing::traits::ToSVG for Lean {
    type Value = svg::Document;
    fn as_svg(&self) -> svg::Document {
        svg::Document::new()
    }
}
impl State for Lean {
    fn score(&self) -> Option<f64> {
        use std::sync::atomic::Ordering::Relaxed;
        let k = self.stats.calls.fetch_add(1, Relaxed);
        let v = self.val.get_value();
        if k == 0 {
            self.stats.cur_bits.store(v.to_bits(), Relaxed);
            return Some(0.);
        }
        let cur = f64::from_bits(self.stats.cur_bits.load(Relaxed));
        let mv = (v - cur).abs();
        if mv > f64::from_bits(self.stats.max_move_bits.load(Relaxed)) {
            self.stats.max_move_bits.store(mv.to_bits(), Relaxed);
            self.stats.max_move_call.store(k, Relaxed);
        }
        if k <= self.stats.freeze_calls {
            None
        } else {
            self.stats.cur_bits.store(v.to_bits(), Relaxed);
            Some(k as f64)
        }
    }
    fn generate_basis(&self) -> Vec<packing::StandardBasis> {
        vec![packing::StandardBasis::new(&self.val, self.bounds.0, self.bounds.1)]
    }
    fn total_shapes(&self) -> usize {
        1
    }
    fn as_positions(&self) -> Result<String, anyhow::Error> {
        Ok(format!("{}", self.val.get_value()))
    }
}

#[derive(Clone, Debug, Serialize, Deserialize)]
pub struct FreezeCase {
    pub inner: u64,
    /// the freeze lasts freeze_mult * inner (+ freeze_extra) inner loops
    pub freeze_mult: u64,
    pub freeze_extra: u64,
    pub thaw_loops: u64,
    pub max_step: f64,
    pub kt: f64,
    pub seed: u64,
}

fn freeze_strat(ctx: &Ctx) -> BoxedStrategy<FreezeCase> {
    let inners: Vec<u64> = if ctx.tier == crate::engine::Tier::Quick { vec![1, 2, 3, 5, 10, 30, 100, 300, 1000, 3000] } else { vec![1, 3, 30, 300, 1000, 3000, 12_000, 20_000] };
    (proptest::sample::select(inners), 1u64..=12, 0u64..3, 2u64..=4, prop_oneof![Just(1.0f64), 1e-3..1.0f64], prop_oneof![Just(0.0f64), 0.01..1.0f64], any::<u64>())
        .prop_map(|(inner, freeze_mult, freeze_extra, thaw_loops, max_step, kt, seed)| FreezeCase { inner, freeze_mult, freeze_extra, thaw_loops, max_step, kt, seed })
        .boxed()
}

fn freeze_oracle(c: &FreezeCase, rec: &Rec, _: &Ctx) -> Result<(), String> {
    use std::sync::atomic::{AtomicU64, Ordering::Relaxed};
    let freeze_loops = c.freeze_mult * c.inner + c.freeze_extra;
    let loops = freeze_loops + c.thaw_loops;
    let steps = loops * c.inner;
    let bounds = (-1e12, 1e12);
    let range = bounds.1 - bounds.0;
    // a step of max_step * range / 2 = max_step * 1e12: 1e12 accepted moves cannot reach the bounds
    let max_step = c.max_step * 1e-9;
    let cfg = OptCfg { steps, inner: c.inner, kt_start: c.kt, kt_finish: None, kt_ratio: Some(0.), max_step, convergence: None, seed: c.seed };
    let stats = std::sync::Arc::new(LeanStats { calls: AtomicU64::new(0), freeze_calls: freeze_loops * c.inner, cur_bits: AtomicU64::new(0), max_move_bits: AtomicU64::new(0), max_move_call: AtomicU64::new(0) });
    let state = Lean { val: packing::SharedValue::new(0.), bounds, stats: stats.clone() };
    let opt = cfg.build();
    let res = std::panic::catch_unwind(std::panic::AssertUnwindSafe(|| opt.optimise_state(state)));
    let calls = stats.calls.load(Relaxed);
    rec.eval(calls);
    if res.is_err() {
        return Err(format!("optimiser panicked after {} evaluations", calls));
    }
    // values stay below 1e9 here: two ulps of that as the rounding allowance of a stored sum
    let limit = max_step * range / 2. * (1. + 1e-12) + 2. * f64::EPSILON * 1e9;
    let worst = f64::from_bits(stats.max_move_bits.load(Relaxed));
    if worst > limit {
        let k = stats.max_move_call.load(Relaxed);
        return Err(format!(
            "freeze-thaw history ({} inner loops of {} steps all rejected, then {} loops all accepted): proposal #{} (inner loop {}) moves the parameter by {:e}; max_step_size * range / 2 = {:e} ({:.3} times the configured maximum)",
            freeze_loops,
            c.inner,
            c.thaw_loops,
            k,
            (k - 1) / c.inner + 1,
            worst,
            limit,
            worst / limit
        ));
    }
    let class = format!("freeze-thaw/inner{}{}", c.inner, if calls > 100_000_000 { "/over-1e8-proposals" } else { "" });
    rec.class(&class);
    if freeze_loops >= 9 * c.inner {
        rec.nontrivial(hash_json(&serde_json::to_value(c).unwrap()));
    }
    if rec.wants_sample(&class) {
        rec.sample(&class, || serde_json::json!({"case": c, "proposals": calls - 1, "largest_move_over_limit": worst / limit}));
    }
    Ok(())
}

pub fn parts() -> Vec<PartDef> {
    vec![part("scripted", 12_000, 360_000, script_strat, script_oracle), part("real", 1_500, 45_000, real_strat, real_oracle), crate::engine::part_opts("freeze-thaw", 400, 48, freeze_strat, freeze_oracle, |c: &FreezeCase, _: &dyn Fn(&FreezeCase) -> bool| c.clone(), crate::engine::PartOpts { max_shards: usize::MAX, max_shrink_iters: 8 })]
}

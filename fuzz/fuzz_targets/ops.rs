//! libFuzzer target for C17: the same two oracles as the proptest parts.
//!  * byte 0 even: the remaining bytes (lossy UTF-8) are an arbitrary string; `from_operations` must return;
//!  * byte 0 odd:  the remaining bytes are decoded into a grammar AST; the parse must succeed and map the test
//!                 points to the expression's value.
#![no_main]

#[path = "../../harness/src/opgrammar.rs"]
#[allow(dead_code)]
mod opgrammar;

use libfuzzer_sys::fuzz_target;
use opgrammar::{check_grammar_string, decode_case};

fuzz_target!(|data: &[u8]| {
    if data.is_empty() {
        return;
    }
    if data[0] & 1 == 0 {
        let s = String::from_utf8_lossy(&data[1..]);
        // a panic inside is the failure
        let _ = packing::Transform2::from_operations(&s);
    } else {
        let case = decode_case(&data[1..]);
        if let Err(msg) = check_grammar_string(&case) {
            panic!("C17-GRAMMAR {}", msg);
        }
    }
});

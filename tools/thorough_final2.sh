#!/bin/bash
cd /verif
while ! grep -q THOROUGH-DONE target/thorough_final.log; do sleep 20; done
run() { t0=$(date +%s); out=$(./check "$@" 2>&1); rc=$?; t1=$(date +%s); echo "$* rc=$rc $((t1-t0))s $(echo "$out" | grep -E '^summary' | cut -c1-140)"; [ $rc -ne 0 ] && echo "$out" | grep -E "VIOLATION|message=|HARNESS|INCONCL" | cut -c1-400 | head -6; }
run C19 thorough
run C07 thorough
run C01 thorough
run C09 thorough
echo THOROUGH2-DONE

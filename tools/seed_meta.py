#!/usr/bin/env python3
"""Writes seeded/<dir>/meta.json from the logs left by tools/try_seed.sh and the table below."""
import json, os, re, glob
HERE = os.path.dirname(os.path.dirname(os.path.abspath(__file__)))
NEEDS = {
 "C01": ("C01", "sub-agent", "check_intersection skips the full-range image search for a pair unless one of the 8 nearest images passes the centre-distance prefilter; manifests only for p2 in thin skewed cells with copies near opposite faces (only touching image two cells away)"),
 "C02": ("C02", "sub-agent", "exposed-arc sweep uses `exposed_from = end` instead of max(); manifests only for trimers whose two small discs overlap each other inside the central disc (nested covered arcs)"),
 "C03": ("C03", "sub-agent", "shell count min(3, ceil(range/min(a,b))) without the sin(angle) factor; manifests only for cut potentials in skewed cells of a narrow size window with copies near opposite faces"),
 "C04": ("C04", "sub-agent", "periodic() applies the whole-cell shift in the copy's rotated/mirrored frame; needs a group with a half-cell translation, a site orientation != 0 and a copy that lands outside [-1/2,1/2)"),
 "C05": ("C05", "sub-agent", "zero-temperature guard moved into build() with is_infinite(): kt_start=0 and kt_finish=0 exactly gives a NaN factor; needs >= 2 inner loops"),
 "C06": ("C06", "sub-agent", "set_value returns early on clamping before recording `old`; needs a clamped proposal that is rejected after an earlier accepted set on the same handle"),
 "C07": ("C07", "sub-agent", "new arm `Some(_) if kt <= 0. => None`: an exactly equal score is rejected at kT = 0; needs a plateau / no-op move at zero temperature"),
 "C08": ("C08", "sub-agent", "upper bound of the side ratio for rectangular groups is the constant 1 instead of the current value; needs a chain of >= 2 stages, a rectangular group and an uphill-accepting later stage"),
 "C09": ("C09", "sub-agent", "PotentialState::score sums pair energies with a rayon parallel float sum when there are >= 128 images; needs LJ, a 4-copy group and >= 3-4 threads (summation order depends on the schedule)"),
 "C10": ("C10", "sub-agent", "replica seeds become stage*replications+index; only visible when runs that differ in --replications are compared (k replicas are no longer a prefix of k+1)"),
 "C11": ("C11", "sub-agent", "whole-number parameters are serialised as saturating i64; needs a parameter of magnitude >= 2^63"),
 "C12": ("C12", "sub-agent", "MolecularShape2::intersects checks atom pairs (i,j) only for i <= j; needs a trimer placement whose only overlapping discs are (1,0),(2,0),(2,1), and shows as an argument-order asymmetry"),
 "C13": ("C13", "sub-agent", "LJShape2::energy early exit compares sep^2 with cutoff^2 + reach^2 (cross term dropped); needs multi-particle molecules at a centroid separation in a window"),
 "C14": ("C14", "sub-agent", "periodic_images rewritten with cos = sqrt(1-sin^2): wrong for obtuse cell angles only (deserialised cells)"),
 "C15": ("C15", "sub-agent", "periodic() fast path with an inclusive upper bound: a coordinate exactly +1/2 is not wrapped"),
 "C16": ("C16", "sub-agent", "from_operations rewritten single-pass; the constant of the last coordinate is dropped: p1g1 parses as p1m1, p2gg as p2mg (still closed groups of the right order)"),
 "C17": ("C17", "sub-agent", "a blank or '+' resets the pending sign: 'x - 1/2' parses as x+1/2; compact spellings unaffected"),
 "C18": ("C18", "sub-agent", "cooling factor spread over ceil(steps/inner_steps) loops; needs kt_finish, > 1 loop and steps not a multiple of inner_steps"),
 "C19": ("C19", "sub-agent", "step ratio may grow again after it was reduced, uncapped; needs a 100%-rejected loop followed by a loop with acceptances, >= 3 loops"),
 "C20": ("C20", "sub-agent", "outer loop exits early when the step size is at its floor and a whole inner loop was rejected; needs short inner loops in a long quench"),
 "orig-C01": ("C01", "revert of fix 1743f8c/a3224f8", "original defect: shell count 1..3 from cell aspect/angle"),
 "orig-C02": ("C02", "revert of fix 9c7cce3", "original defect: pairwise inclusion-exclusion area"),
 "orig-C03": ("C03", "revert of fix 69365b2", "original defect: periodic pairs weighted twice"),
 "orig-C05": ("C05", "revert of fix 54d8ebb", "original defect: kT = 0*inf = NaN from loop 2"),
 "orig-C08nan": ("C08", "revert of fix a8af159", "original defect: NaN score accepted"),
 "orig-C10": ("C10", "revert of fix c74e5e7", "original defect: p1g1 labelled p1m1"),
 "orig-C11": ("C11", "revert of fix 72beef2", "original defect: serde_json 1.0.57 float parsing"),
 "orig-C12": ("C12", "revert of fix ba0881d", "original defect: exact-zero parallel test and closed [0,1] interval decided by rounding"),
 "orig-C13": ("C13", "revert of fix 5a7354d", "original defect: energy uses only the first particle's parameters"),
 "orig-C18": ("C18", "revert of fix 3a3f53c", "original defect: exponent 1/steps"),
 "orig-C19": ("C19", "revert of fix 0e42ce8", "original defect: step ratio grows every loop"),
 "orig-C20": ("C20", "revert of fix 34447d9", "original defect: division by zero for steps/inner_steps = 0"),
}
for d in sorted(glob.glob(os.path.join(HERE, "seeded", "*"))):
    name = os.path.basename(d)
    if name not in NEEDS or not os.path.exists(os.path.join(d, "patch.diff")):
        continue
    prop, origin, needs = NEEDS[name]
    runs = {}
    for log in sorted(glob.glob(os.path.join(d, "check-*.log"))):
        cid = os.path.basename(log)[6:-4]
        text = open(log).read()
        viol = re.findall(r"^VIOLATION property=(\S+) replay=\S+\n\s+part=(\S+)", text, re.M)
        if "INCONCLUSIVE" in text:
            runs[cid] = "inconclusive"
        elif viol:
            runs[cid] = "VIOLATION in part(s) " + ", ".join(sorted({p for _, p in viol}))
        else:
            runs[cid] = "silent"
    meta = {
        "breaks_property": prop,
        "origin": origin,
        "what_it_needs_to_manifest": needs,
        "confirmed_by_me": "applied in a scratch worktree under /tmp/wt: the 90-test suite passes with the change; the demonstration fails with it and passes without it (tools/confirm_seed.sh)" if origin == "sub-agent" else "reverse patch of the fix commit; the tree before the fix is the pinned snapshot, whose 90 tests pass",
        "how_checked": "tools/try_seed.sh: git -C /repo apply patch.diff; ./check <ID> quick; git -C /repo checkout -- .",
        "quick_check_results": runs,
    }
    json.dump(meta, open(os.path.join(d, "meta.json"), "w"), indent=1)
    print(name, runs)

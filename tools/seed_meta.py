#!/usr/bin/env python3
"""Writes seeded/<dir>/meta.json from the logs left by tools/try_seed.sh and the table below."""
import json, os, re, glob
HERE = os.path.dirname(os.path.dirname(os.path.abspath(__file__)))
NEEDS = {
 "C01": ("C01", "sub-agent", "check_intersection skips the full-range image search for a pair unless one of the 8 nearest images passes the centre-distance prefilter; manifests only for p2 in thin skewed cells with copies near opposite faces (only touching image two cells away)"),
 "C02": ("C02", "sub-agent", "exposed-arc sweep uses `exposed_from = end` instead of max(); manifests only for trimers whose two small discs overlap each other inside the central disc (nested covered arcs)"),
 "C03": ("C03", "sub-agent", "shell count min(3, ceil(range/min(a,b))) without the sin(angle) factor; manifests only for cut potentials in skewed cells of a narrow size window with copies near opposite faces"),
 "C04": ("C04", "sub-agent", "periodic() applies the whole-cell shift in the copy's rotated/mirrored frame; needs a group with a half-cell translation, a site orientation != 0 and a copy that lands outside [-1/2,1/2)"),
 "C05": ("C05", "sub-agent", "zero-temperature guard moved into build() with is_infinite(): kt_start=0 and kt_finish=0 exactly gives a NaN factor; needs >= 2 inner loops"),
 "C06": ("C06", "sub-agent", "set_value returns early on clamping before recording `old`; needs a clamped proposal that is rejected after an earlier accepted set on the same handle"),
 "C07": ("C07", "sub-agent", "new arm `Some(_) if kt <= 0. => None`: an exactly equal score is rejected at kT = 0; needs a plateau / no-op move at zero temperature"),
 "C08": ("C08", "sub-agent", "upper bound of the side ratio for rectangular groups is the constant 1 instead of the current value; needs a chain of >= 2 stages, a rectangular group and an uphill-accepting later stage"),
 "C09": ("C09", "sub-agent", "PotentialState::score sums pair energies with a rayon parallel float sum when there are >= 128 images; needs LJ, a 4-copy group and >= 3-4 threads (summation order depends on the schedule)"),
 "C10": ("C10", "sub-agent", "replica seeds become stage*replications+index; only visible when runs that differ in --replications are compared (k replicas are no longer a prefix of k+1)"),
 "C11": ("C11", "sub-agent", "whole-number parameters are serialised as saturating i64; needs a parameter of magnitude >= 2^63"),
 "C12": ("C12", "sub-agent", "MolecularShape2::intersects checks atom pairs (i,j) only for i <= j; needs a trimer placement whose only overlapping discs are (1,0),(2,0),(2,1), and shows as an argument-order asymmetry"),
 "C13": ("C13", "sub-agent", "LJShape2::energy early exit compares sep^2 with cutoff^2 + reach^2 (cross term dropped); needs multi-particle molecules at a centroid separation in a window"),
 "C14": ("C14", "sub-agent", "periodic_images rewritten with cos = sqrt(1-sin^2): wrong for obtuse cell angles only (deserialised cells)"),
 "C15": ("C15", "sub-agent", "periodic() fast path with an inclusive upper bound: a coordinate exactly +1/2 is not wrapped"),
 "C16": ("C16", "sub-agent", "from_operations rewritten single-pass; the constant of the last coordinate is dropped: p1g1 parses as p1m1, p2gg as p2mg (still closed groups of the right order)"),
 "C17": ("C17", "sub-agent", "a blank or '+' resets the pending sign: 'x - 1/2' parses as x+1/2; compact spellings unaffected"),
 "C18": ("C18", "sub-agent", "cooling factor spread over ceil(steps/inner_steps) loops; needs kt_finish, > 1 loop and steps not a multiple of inner_steps"),
 "C19": ("C19", "sub-agent", "step ratio may grow again after it was reduced, uncapped; needs a 100%-rejected loop followed by a loop with acceptances, >= 3 loops"),
 "C20": ("C20", "sub-agent", "outer loop exits early when the step size is at its floor and a whole inner loop was rejected; needs short inner loops in a long quench"),
 "C01-2a": ("C01", "sub-agent round 2", "MolecularShape2::enclosing_radius taken from the atom furthest from the centre only (distance without its own radius maximised jointly): 3-15% too small for trimers with angle ~60..99 deg; prefilter and shell count then miss back-to-back large discs; needs copies of different orientation"),
 "C01-2b": ("C01", "sub-agent round 2", "in-cell pair loop folded into the image loop, own image recognised by distance > 0: two different copies at exactly zero distance (site clamped to +-1/2 in mirror/2-fold groups) are skipped, a 100% overlap is scored"),
 "C02-2a": ("C02", "sub-agent round 2", "polygon area summed as |triangle| about the mean of the vertices: too large only for lopsided concave radial polygons whose vertex mean lies outside the kernel"),
 "C02-2b": ("C02", "sub-agent round 2", "sin/cos of the cell angle cached with a 1e-6 tolerance key: score stale (<= 4e-7 relative) after the angle moved by less than 1e-6 on the same state object (fine-step optimisation)"),
 "C03-2a": ("C03", "sub-agent round 2", "in-cell and periodic loops merged, 'the molecule itself' recognised by position: two distinct copies sharing a centre (site exactly on a symmetry element) lose their pair"),
 "C03-2b": ("C03", "sub-agent round 2", "score memo keyed on the basis values only: stale after the public shape field is replaced on the same state object"),
 "C04-2a": ("C04", "sub-agent round 2", "copies within 1e-5 of the upper cell face are snapped to the lower face: off a lattice translation by up to 1e-5 of a cell side; needs a site coordinate within 1e-5 of a face"),
 "C04-2b": ("C04", "sub-agent round 2", "Cell2::clone rebuilt from Cell2::default(): family silently becomes Monoclinic, the optimiser then moves the angle of mirror-group cells; needs clone then optimise (what the CLI does)"),
 "C05-2a": ("C05", "sub-agent round 2", "a proposal clamped onto a limit is counted as rejected without evaluation or undo: a value within half a step of a limit is silently moved there while the current score is kept"),
 "C05-2b": ("C05", "sub-agent round 2", "'same score' tolerance 1e-10 in the acceptance rule: proposals worse by up to 1e-10 are accepted at kT=0 and the reference ratchets down"),
 "C06-2a": ("C06", "sub-agent round 2", "stall early exit (only with a convergence threshold) breaks out of the inner loop before reset_value(): the last rejected proposal stays in the state"),
 "C06-2b": ("C06", "sub-agent round 2", "reset_value goes through the clamp: a rejected move on a parameter that started outside its limits is restored to the limit, not bit-for-bit"),
 "C07-2a": ("C07", "sub-agent round 2", "exp(x) replaced by 1+x+x^2/2 for -0.5<x<0: worse moves over-accepted by up to 3% only for 0.1 < d/kT < 0.5"),
 "C07-2b": ("C07", "sub-agent round 2", "kt_start replaced by kt_finish when kt_start < kt_finish and no ratio is given: the greedy kt_start=0 idiom runs at kT=kt_finish"),
 "C08-2a": ("C08", "sub-agent round 2", "clamped proposals counted as rejected and not evaluated: a clamp from just inside a limit is kept without overlap check; returns score None in dense packings (with convergence) or panics"),
 "C08-2b": ("C08", "sub-agent round 2", "site parameters wrapped by one period instead of clamped: with max_step_size > 2 values leave their range"),
 "C09-2a": ("C09", "sub-agent round 2", "thread-local one-entry score memo keyed by parameters only (not shape/group): a different state with bit-identical parameters scored next on the same thread gets the previous score; result depends on what ran before"),
 "C09-2b": ("C09", "sub-agent round 2", "states compared with a 1e-9 tolerance (non-transitive): parallel max() over replicas picks a different best for different rayon split trees when >= 3 replicas form a near-tie chain"),
 "C10-2a": ("C10", "sub-agent round 2", "scores within 1e-8 compare equal: max() keeps the later of two near-equal replicas even when it is lower"),
 "C10-2b": ("C10", "sub-agent round 2", "best replica selected after the Monte-Carlo stage and only it is polished: more replications can give a lower score (~4% of (k,k+1) pairs)"),
 "C11-2a": ("C11", "sub-agent round 2", "SVG matrix entries below 1e-6 written as 0 (absolute): small shapes / coordinates / rotations are drawn on the axis"),
 "C11-2b": ("C11", "sub-agent round 2", "deserialisation rejects x,y outside [-0.5,0.5) and angle outside [0,2pi): a state clamped onto the closed upper limit is written but cannot be read back"),
 "C12-2a": ("C12", "sub-agent round 2", "bounding-circle early reject with the radius taken from the first point only: false 'no' for convex radial polygons with unequal radii"),
 "C12-2b": ("C12", "sub-agent round 2", "end tolerance scaled by the largest coordinate: false 'yes' for gaps of 3e-9..1e-8 at coordinates >= 30; answer changes under a common translation"),
 "C13-2a": ("C13", "sub-agent round 2", "cutoff shift dropped when cutoff/sigma > 5: potential not zero at the cutoff, values off by <= 2.6e-4 eps"),
 "C13-2b": ("C13", "sub-agent round 2", "Transform2 * LJ2 rebuilt from LJ2::new: cutoff silently reset to None for the left-operator form only"),
 "C14-2a": ("C14", "sub-agent round 2", "cos set to 0 when |cos| < 1e-4: wrong B vector for angles within 1e-4 of pi/2 (not exactly pi/2)"),
 "C14-2b": ("C14", "sub-agent round 2", "area matched on the family (a*b, a*a, sqrt(3)/2 a*a): wrong for deserialised non-monoclinic cells with a generic angle/ratio"),
 "C15-2a": ("C15", "sub-agent round 2", "positions() skips an image within 1e-12 of an already generated one: fewer than N placements for a site exactly on a symmetry element (reached through the clamp to +-1/2)"),
 "C15-2b": ("C15", "sub-agent round 2", "wrap by a single conditional +-period shift: wrong for sites more than one cell outside (deserialised), and for glide groups already at one cell"),
 "C16-2a": ("C16", "sub-agent round 2", "general positions built as products generator*sym of parsed operations whose (2,2) entry is 0: the 4th operation of p2mg and p2gg loses its translation (tables not closed)"),
 "C16-2b": ("C16", "sub-agent round 2", "family derived from the symbol testing only for 'm': p1g1 and p2gg paired with Monoclinic"),
 "C17-2a": ("C17", "sub-agent round 2", "parsing of a component stops after a rational constant: '1/2-x' loses the -x; constant-last forms unaffected"),
 "C17-2b": ("C17", "sub-agent round 2", "brace stripping by byte slicing: panics on \"(\" and on strings starting with '(' and ending in a non-ASCII character"),
 "C18-2a": ("C18", "sub-agent round 2", "builder setter discards kt_ratio outside 0<r<1: exactly 0 (constant temperature) silently falls back to another schedule"),
 "C18-2b": ("C18", "sub-agent round 2", "a loop that counts towards convergence skips the cooling step: needs a convergence threshold and stalled non-final loops"),
 "C19-2a": ("C19", "sub-agent round 2", "set_value early returns do not save the previous value on clamping: same mechanism as seeded/C06 (restore to a stale value). By the property sheet this is C06's subject (why_tests_cant of C06 names 'resetting to a stale value'); C19's check measures a move from the nearest earlier value and deliberately stays silent, C06's check reports it"),
 "C19-2b": ("C19", "sub-agent round 2", "step floor 1e-4 applied after the cap: with max_step_size < 1e-4 (or 0) moves exceed the maximum from loop 2 on"),
 "C20-2a": ("C20", "sub-agent round 2", "convergence threshold scaled by max(1,|score|): runs whose score exceeds 1 in magnitude end early although loops improved by more than the threshold"),
 "C20-2b": ("C20", "sub-agent round 2", "an svg::save error is logged instead of propagated: exit 0 with only the .json when the .svg path is not writable"),
 "C01-3": ("C01", "sub-agent round 3", "number of image shells computed as ceil(x - 1.5e-8*x): one shell short when 2R/height is within 1.5e-8 (relative) above a whole number; a far image in the line of the cell vector then overlaps by <= 1e-8 unnoticed (relative measure ~1e-20 of the uniform domain)"),
 "C02-3": ("C02", "sub-agent round 3", "from_radial merges collinear consecutive edges while area() still assumes equally spaced radial points: wrong area only for radial polygons with a point exactly on the chord of its neighbours"),
 "C04-3": ("C04", "sub-agent round 3", "Cartesian coordinates below 1e-13 (absolute) cleared to 0 in Cell2::to_cartesian: the map is no longer scale invariant; visible only for shapes/cells of size <~ 1e-6 or coordinates within 1e-13 of an axis (also changes Cell2 geometry: C14)"),
 "C05-3": ("C05", "sub-agent round 3", "reset_value goes through the clamp of the limits: a value that starts outside its limits (tiny shapes: cell length below its lower limit) is put back on the limit after a rejection, the reference score then belongs to no visited state"),
 "C06-3": ("C06", "sub-agent round 3", "moves drawn among the non-fixed handles, undo applied to basis[choice] instead of basis[free[choice]]: identity unless a non-trailing parameter has min >= max (fixed parameter)"),
 "C07-3": ("C07", "sub-agent round 3", "proposals worse by more than 20 kT rejected without looking at the draw: differs from the rule only when the acceptance draw is below exp(-20) = 2e-9"),
 "C09-3": ("C09", "sub-agent round 3", "best replica via rayon fold + reduce whose tie-breaking disagrees (fold keeps first, reduce keeps last of equal scores): output depends on the split tree only when >= 2 replicas have exactly equal best scores but different parameters"),
 "C10-3": ("C10", "sub-agent round 3", "quick stage shortened to (1<<22)/replications steps when replications > 4194: replica k of a larger run is no longer the replica k of a smaller run; visible only for --replications >= 4195 (quick ladder stops at 144, thorough at 6765)"),
 "C03-3": ("C03", "sub-agent round 3", "lattice energy summed for the first copy of each site only and multiplied by the multiplicity: exact when the operations are symmetries of the crystal; wrong for mirror/glide groups in a cell whose angle left 90 degrees (states built from public fields / JSON); also shifts the truncation set for uncut circles in p2mg/p2gg"),
 "C11-3": ("C11", "sub-agent round 3", "output files opened without truncation: a shorter result written over a longer earlier one keeps the old tail (JSON unreadable, SVG with extra placements); only the CLI with a pre-existing outfile"),
 "C12-3": ("C12", "sub-agent round 3", "end tolerance of the segment test divided by sin(angle between the segments), up to 1e-6: corner-to-corner copies with one side continuing the other at an angle of 1e-12..1e-4 answer YES at separations up to 1e-6 side lengths (~1e-20 of placement space). patch.diff is rebased on fix 1cf434c"),
 "C13-3": ("C13", "sub-agent round 3", "'same species' fast path: sigma/epsilon agreeing within 1e-8 relative use self's own values instead of the mixed ones: E(a,b) != E(b,a) by up to 1.5e-7 relative only for species differing by 1e-10..1e-8"),
 "C14-3": ("C14", "sub-agent round 3", "per-thread memo of sin/cos of the last cell angle reused within 1e-8 rad: map and images of a cell use the previous cell's angle when the previous call on the same thread had an angle closer than 1e-8"),
 "C15-3": ("C15", "sub-agent round 3", "site angle folded with rem_euclid(2 pi / num_rotations): identity for num_rotations = 1 (everything the constructors and the CLI build); wrong linear parts for a site with the public field num_rotations >= 2 and an angle beyond 2 pi / n"),
 "C16-3": ("C16", "sub-agent round 3", "per-thread cache of parsed general positions keyed by group name, validated with zip (a prefix matches): a user-built group with a built-in name and a truncated listing parsed first on the same thread makes the later built-in read return the short table"),
 "C17-3": ("C17", "sub-agent round 3", "character loop zipped with a u8 column counter: arithmetic overflow panic on the 255th character of one component (builds with overflow checks: debug, and the harness profile); needs ~250 optional blanks"),
 "C18-3": ("C18", "sub-agent round 3", "cooling factor stored as 1 - (1 - f): rounded to a multiple of 1.1e-16, so +-11% at f ~ 5e-16 and exactly 0 below 5.5e-17; needs kt_finish/kt_start below ~1e-14 per loop"),
 "C08-3": ("C08", "sub-agent round 3", "StandardBasis::new widens an empty range (max <= min) to min + 1e-3: a chained stage that starts with the ratio exactly on its lower limit 0.1 has the range [0.1, 0.101] and leaves [0.1, starting ratio]; needs a stage starting on the limit and kT > 0"),
 "C19-3": ("C19", "sub-agent round 3", "when the step is frozen at the 1e-4 floor, a loop with few rejections sets step_ratio = 1e-4 * inner_steps/(rejections+1) uncapped: needs inner_steps > 10^4, more than 9.2 * inner_steps all-rejected loops (~1e9 proposals) and then an accepting loop; quick tier silent by construction (inner <= 3000), thorough freeze-thaw part reaches it"),
 "C20-3": ("C20", "sub-agent round 3", "steps drawn on a parameter whose limits coincide are consumed without a proposal: fewer evaluations than steps minus one inner loop; needs a fixed parameter (cell ratio clamped exactly onto 0.1 by an earlier stage, orthorhombic group, 20:1 shape) and a chained second run"),
 "orig-C01": ("C01", "revert of fix 1743f8c/a3224f8", "original defect: shell count 1..3 from cell aspect/angle"),
 "orig-C02": ("C02", "revert of fix 9c7cce3", "original defect: pairwise inclusion-exclusion area"),
 "orig-C03": ("C03", "revert of fix 69365b2", "original defect: periodic pairs weighted twice"),
 "orig-C05": ("C05", "revert of fix 54d8ebb", "original defect: kT = 0*inf = NaN from loop 2"),
 "orig-C08nan": ("C08", "revert of fix a8af159", "original defect: NaN score accepted"),
 "orig-C10": ("C10", "revert of fix c74e5e7", "original defect: p1g1 labelled p1m1"),
 "orig-C11": ("C11", "revert of fix 72beef2", "original defect: serde_json 1.0.57 float parsing"),
 "orig-C12": ("C12", "revert of fix ba0881d", "original defect: exact-zero parallel test and closed [0,1] interval decided by rounding"),
 "orig-C13": ("C13", "revert of fix 5a7354d", "original defect: energy uses only the first particle's parameters"),
 "orig-C18": ("C18", "revert of fix 3a3f53c", "original defect: exponent 1/steps"),
 "orig-C19": ("C19", "revert of fix 0e42ce8", "original defect: step ratio grows every loop"),
 "orig-C20": ("C20", "revert of fix 34447d9", "original defect: division by zero for steps/inner_steps = 0"),
}
for d in sorted(glob.glob(os.path.join(HERE, "seeded", "*"))):
    name = os.path.basename(d)
    if name not in NEEDS or not os.path.exists(os.path.join(d, "patch.diff")):
        continue
    prop, origin, needs = NEEDS[name]
    runs = {}
    for log in sorted(glob.glob(os.path.join(d, "check-*.log"))):
        cid = os.path.basename(log)[6:-4]
        text = open(log).read()
        viol = re.findall(r"^VIOLATION property=(\S+) replay=\S+\n\s+part=(\S+)", text, re.M)
        if "INCONCLUSIVE" in text:
            runs[cid] = "inconclusive"
        elif viol:
            runs[cid] = "VIOLATION in part(s) " + ", ".join(sorted({p for _, p in viol}))
        else:
            runs[cid] = "silent"
    meta = {
        "breaks_property": prop,
        "origin": origin,
        "what_it_needs_to_manifest": needs,
        "confirmed_by_me": "applied in a scratch worktree under /tmp/wt: the 90-test suite passes with the change; the demonstration fails with it and passes without it (tools/confirm_seed.sh)" if origin.startswith("sub-agent") else "reverse patch of the fix commit; the tree before the fix is the pinned snapshot, whose 90 tests pass",
        "how_checked": "tools/try_seed.sh: git -C /repo apply patch.diff; ./check <ID> quick; git -C /repo checkout -- .",
        "quick_check_results": runs,
    }
    json.dump(meta, open(os.path.join(d, "meta.json"), "w"), indent=1)
    print(name, runs)

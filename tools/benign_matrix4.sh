#!/bin/bash
# the second set of behaviour-preserving changes (feature-work style) against every quick check
cd /verif
ALL="C01 C02 C03 C04 C05 C06 C07 C08 C09 C10 C11 C12 C13 C14 C15 C16 C17 C18 C19 C20"
for d in seeded/benign/agent2-*; do
  [ -f $d/patch.diff ] || continue
  echo "##### $(basename $d)"
  tools/try_seed.sh $d/patch.diff $d $ALL 2>&1 | grep -E "^== |VIOLATION|message=" | cut -c1-300 | tr '\n' ' '
  echo
done
echo BENIGN-DONE

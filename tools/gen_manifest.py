#!/usr/bin/env python3
"""Regenerates /verif/MANIFEST.json from the table below (kept in one place so the manifest stays valid)."""
import json, os, sys

HERE = os.path.dirname(os.path.dirname(os.path.abspath(__file__)))

# id -> (technique, level text, level note, design ref)
CHECKS = {
    'C01': (
        'proptest-generated crystal states (uniform, thin-cell, slide-to-contact, optimiser histories) vs an exhaustive lattice-image enumeration with separating-axis / disc-distance gaps (differential oracle)',
        'Exploration: ~5.7e7 (quick) generated (cell, site) states over all groups and shapes, built to reach far-image overlaps (thin cells, copies on opposite faces, contact bisection) plus every state visited by 320 real optimiser runs; each scored state is judged by enumerating every image within two enclosing radii from the lattice geometry. Absence is not proven; the generator families and their hit rates on the original defect are recorded in DESIGN.md.',
        'Trusted: harness geometry kernel (ITA tables, SAT for convex polygons, lattice inequality solver; unit-tested). States with score None are not judged. Polygons convex.',
        'DESIGN.md §2 C01',
    ),
    'C02': (
        'proptest-generated shapes, cells and valid states vs independent area formulas (shoelace, slab-integrated disc union, |AxB|) — differential oracle',
        "Exploration: 3e6 shapes incl. triple-overlap/containment/nearly coincident trimers, 2e6 cells, ~1.5e6 oracle-valid states, 1.5e3 optimisation histories (every score the optimiser saw, 1.5e6) and 6e4 shape-replacement cases per quick run; score compared with N*area/|AxB| from the harness's own table, shape and lattice at rel 1e-9.",
        'Trusted: slab integration of disc unions (checked against the 2-disc closed form, a grid estimate, and a 40-digit mpmath evaluation during development).',
        'DESIGN.md §2 C02',
    ),
    'C03': (
        'proptest-generated LJ crystals and re-description twins vs a once-per-pair lattice sum with geometric neighbour enumeration (differential + metamorphic)',
        "Exploration: 6e5 states (quick) x optional twin (origin shifts, free shifts, 2-fold re-description, across-face) x optional shape replacement on the same state object; score vs minus the harness's lattice energy per molecule; uncut potential judged against the interval between the 3-shell and the converged sum.",
        "Trusted: pair energies come from the package's own LJ2::energy (C13 decides that law); harness places molecules and enumerates pairs. Known finding lj-beyond-3-shells accepted only as exact-sum-or-3-shell-sum.",
        'DESIGN.md §2 C03',
    ),
    'C04': (
        'proptest-generated states (constructed and after optimisation) checked for invariance of the placed point sets under the ITA operations mapped through the actual cell (metamorphic / invariant oracle)',
        'Exploration: 3e5 constructed states + 600 optimisation histories per quick run, hard and LJ, chiral shapes included; every operation must be orthogonal in the current cell and permute the placed copies modulo lattice vectors.',
        'Trusted: ITA table and lattice of the harness; shapes compared as point sets.',
        'DESIGN.md §2 C04',
    ),
    'C05': (
        'proptest-generated optimiser configurations with kt_start=0 on scripted/landscape/real states; accept/reject history inferred from successive score() calls and judged against the deterministic kT=0 model (model-based history oracle)',
        'Exploration: 3.75e4 optimiser runs per quick run (8e7 observed steps) over every combination of kt_finish/kt_ratio/steps/inner_steps/convergence/step size, synthetic and real states (dilute and pre-compressed); judged by a trace model that admits exactly the histories C05 permits.',
        'Trusted: the trace model (one score() call per proposal); ambiguous steps excluded, never guessed.',
        'DESIGN.md §2 C05, §1.4',
    ),
    'C06': (
        'stateful scripted score functions (forced accept/reject sequences) + decision-agnostic trace model over proposal vectors; invariant over the history',
        'Exploration: 2e4 adversarial scripts (4e7 steps; with and without convergence thresholds, starts inside and outside the bounds, step sizes up to 2.5) + 2e3 real-state runs (dilute and pre-compressed starts) per quick run; every proposal must derive from the proposal-or-previous state, the returned parameters must be the last accepted state.',
        'Trusted: trace model; the last-accepted clause uses only forced outcomes and only when all interior decisions were honoured.',
        'DESIGN.md §2 C06',
    ),
    'C07': (
        'scripted forced outcomes for the deterministic clauses + acceptance-frequency test (6-sigma binomial) of scripted worse moves at 12 (d,kT) pairs (statistical oracle)',
        'Exploration: 6e4 deterministic scripts and 240 frequency cases of 2e5 counted proposals each per quick run (2e6 in thorough) on a fixed grid and on generated d/kT in [0.02,4]: an absolute bias of ~0.7% (quick) / 0.2% (thorough) in the acceptance probability is resolved.',
        'Trusted: binomial test with stated false-alarm rate; ambiguous steps excluded independently of outcome.',
        'DESIGN.md §2 C07',
    ),
    'C08': (
        'proptest-generated start states and chains of 1..4 optimiser configurations; range/family invariants read from the JSON of every stage output',
        "Exploration: 4e4 initial states and 2.5e3 chains (5e6 steps; step sizes up to 8) per quick run; ranges taken from the statement, relative to each stage's input.",
        'Trusted: JSON field names of the serialised state; handing the state on through serde_json::Value.',
        'DESIGN.md §2 C08',
    ),
    'C09': (
        'proptest-generated task batches run alone vs on rayon pools of generated sizes/orders, and the real CLI under RAYON_NUM_THREADS 1..16 (differential against the sequential reference)',
        'Exploration: 300 batches (1.2e4 task executions) on pools of 1..16 threads, 120 CLI argument sets x 3-4 thread counts (a quarter in a near-tie regime) and 2e3 parallel best-of-n selections over near-tie chains per quick run. Schedules are sampled, not enumerated.',
        'Trusted: byte comparison of serde_json output. A race needing one specific interleaving can be missed (stated in DESIGN.md §5).',
        'DESIGN.md §2 C09',
    ),
    'C10': (
        'proptest-generated CLI argument sets run for k=1..kmax replications; hook-reported replica scores, prefix monotonicity, label/shape comparison with the ITA table and documented constructors; generated state vectors for max()/cmp()',
        'Exploration: 400 argument sets (~1200 CLI runs) and 2e4 ordering vectors (independent, tied and nearly tied scores) per quick run.',
        'Trusted: verif-hooks line per replica (additive, guarded); harness table/constructors.',
        'DESIGN.md §2 C10, §1.6',
    ),
    'C11': (
        "round-trip oracle over proptest-generated states (incl. arbitrary mantissas and raw f64 bit patterns), SVG parsed and compared as a multiset with the harness's placements, CLI files re-read",
        'Exploration: 1.5e5 round trips, 4e4 SVGs, 160 CLI file pairs per quick run; numbers compared bit for bit.',
        'Trusted: serde_json::Value construction of the inputs (exact); harness placements for the SVG multiset.',
        'DESIGN.md §2 C11',
    ),
    'C12': (
        'proptest-generated shape pairs in eight constructed families (generic, edge-aligned, vertex contacts, coincident, mirror, near-touching by bisection) vs separating-axis / disc distance, with swap and common-motion twins (differential + metamorphic)',
        "Exploration: 1e6 pairs x 3 variants per quick run (8e7 pairs in thorough); three-valued verdict with the statement's 1e-9 band.",
        'Trusted: SAT gap (lower bound of true separation, exact penetration for convex polygons).',
        'DESIGN.md §2 C12',
    ),
    'C13': (
        'proptest-generated particle pairs and molecules vs the closed-form shifted 12-6 law, with symmetry, rigid-motion and additivity relations (differential + metamorphic)',
        'Exploration: 1.4e7 cases per quick run incl. r within 1e-9 of the cutoff, unlike pairs, both operator forms of the rigid motion, molecules of 1..5 particles.',
        'Trusted: closed form; no mixing rule is prescribed for unlike pairs, only symmetry.',
        'DESIGN.md §2 C13',
    ),
    'C14': (
        'proptest-generated cells/placements vs an independent lattice model (differential + metamorphic linearity, multiset comparison of periodic images)',
        "Exploration: 4e5 (quick) / 2e7 (thorough) generated cells of all four families with arbitrary placements and shell counts 0..6, each compared with the harness's own lattice (M f, the full multiset of translates, |A x B|).",
        "Trusted: the harness's lattice formulas (geom.rs, unit-tested), serde deserialisation of Cell2 as the way to obtain arbitrary cells, f64 tolerance 1e-12 relative.",
        'DESIGN.md §2 C14',
    ),
    'C15': (
        'proptest-generated sites (bound-heavy mixture, lattice-shifted twins) vs the ITA table: count, exact half-open range, permutation matching mod 1 (differential + metamorphic)',
        'Exploration: 3e5 sites x twin per quick run, both state kinds.',
        'Trusted: harness ITA table; matching as a permutation.',
        'DESIGN.md §2 C15',
    ),
    'C16': (
        'exhaustive comparison of the 7 parsed tables with the ITA general positions (set equality, closure, inverses, symmetry content, family) + generated points for the action',
        'Exhaustive over the finite tables (every operation and pair of each group; evidence sets exhaustive:true) plus 7e4 generated points; the level is exploration because the action part is sampled.',
        "Trusted: the harness's transcription of ITA plane groups 1,2,3,4,6,7,8.",
        'DESIGN.md §2 C16',
    ),
    'C17': (
        'grammar-based string generation with an AST evaluator as reference + arbitrary/mutated strings with a no-panic oracle; libFuzzer target with the same oracles in the thorough tier',
        'Exploration: 3e6 grammar strings and 3e6 arbitrary strings per quick run (6e7 each + up to 2e7 libFuzzer executions with the same oracles in thorough).',
        "Trusted: the AST evaluator; the grammar never puts spaces inside d/d' or between a sign and its term.",
        'DESIGN.md §2 C17',
    ),
    'C18': (
        'scripted downhill proposals sized to the expected temperature of each inner loop; per-loop temperature inferred from acceptance frequencies with 6-sigma intervals (statistical, model-based)',
        'Exploration: 3e3 schedules per quick run (1..12 loops of 1000/4000 steps), ratio and finish paths, kt_start=0, with and without a (non-terminating) convergence threshold.',
        'Trusted: binomial intervals; every convention within one cooling step of kt_finish is accepted.',
        'DESIGN.md §2 C18',
    ),
    'C19': (
        "scripted rejection patterns per loop on synthetic states + real states behind a probe; every proposal's distance from its base compared with max_step*range/2 (invariant over the history)",
        'Exploration: 1.2e4 scripted runs (3.5e7 steps) + 1.5e3 real runs per quick run, 1..30 loops, ranges 1e-3..1e3, max_step_size 0 and 1e-7..1.',
        'Trusted: trace model; the smaller candidate distance is used so a move is never over-reported.',
        'DESIGN.md §2 C19',
    ),
    'C20': (
        'proptest-generated configurations incl. zero/non-multiple step counts, paired runs with/without convergence compared bit for bit; grammar-generated CLI argument vectors (valid and invalid) with an exit-status/no-panic oracle',
        'Exploration: 8e4 library runs (paired with their no-threshold reference) and 640 CLI invocations per quick run.',
        'Trusted: proposal counting via parameter changes; a CLI hang is reported as inconclusive, not as a violation.',
        'DESIGN.md §2 C20',
    ),
}

# sentences appended to the level text (generator families added after the seeded-change rounds, DESIGN.md §7.1–7.3)
ADDED = {
    'C01': ' Added: part aligned-contact (p2 states whose only overlap is with an image 1..3 cells away in line with a lattice row, gap 1e-8.8..1e-5; ~1e5 per quick run).',
    'C04': ' Added: shapes and cells scaled by 10^U(-9,9) (the crate has no unit of length); exact permutation matching.',
    'C05': ' Added: tiny/huge shapes whose starting cell lies outside its limits; warm starts.',
    'C06': ' Added: fixed parameters (min = max) at any position, convergence variants, starts outside the bounds.',
    'C07': " Added: parts boundary / boundary-rare replay the optimiser's Pcg64Mcg stream and place the score difference just on either side of -kT ln(draw), including draws below 1.5e-9 found by scanning ~7e8 draws per quick run.",
    'C09': ' Added: exact-tie regime (several replicas with bit-identical scores and different parameters).',
    'C10': ' Added: replication ladders 1,2,3,5,...,144 (8 per quick run) and one ladder up to 6765 replications in every tier.',
    'C11': ' Added: half of the CLI cases write over existing .json/.svg files of 1..200000 bytes.',
    'C12': ' Added: families collinear-continuation and aligned-then-perturbed (aligned configurations turned by 0 or 1e-13..1e-1 about the contact point, gaps and lateral offsets log-uniform); 6e6 polygon pairs per quick run.',
    'C13': ' Added: nearly identical species (sigma, epsilon, cutoff differing by a relative 1e-15..1e-1).',
    'C14': ' Added: lengths down to 1e-12 and fractions down to 1e-16; a third of the cases evaluate a nearly identical cell right after the first on the same thread, then the first again.',
    'C15': ' Added: the inert public fields of the site record (letter, num_rotations, mirror flags) are varied through the JSON form.',
    'C16': ' Added: part histories (2e5 per quick run): built-in reads interleaved on one thread with user-built groups that reuse a built-in name with a truncated/permuted/extended/altered listing.',
    'C17': ' Added: exhaustive enumeration of all 2.0e6 renderings of single components; runs of up to 700 blanks and strings of up to 1200 characters; the harness links the package with overflow checks on.',
    'C18': ' Added: per-loop cooling factors down to 1e-20 measured from a score re-centred to exactly 0.',
    'C19': ' Added: part freeze-thaw with a lean one-parameter state (45 ns per proposal): m*inner all-rejected loops then accepting loops; 2.8e9 proposals per quick run, histories of up to 5e9 proposals (2.2e10 in total) in thorough.',
    'C20': ' Added: exhaustive small-scope part (1292 configurations), CLI cases with verbosity flags, start-config and unwritable outputs.',
}

# second batch (multi-site states, user-built groups, golden structures; DESIGN.md §7.4)
ADDED2 = {
    'C01': ' Part multi-site: 3e5 states with 2..4 occupied sites (PackedState::initialise) per quick run, copies = union over the sites.',
    'C02': ' Added: part multi-site (2e5 states with 2..4 occupied sites) and part golden (the 400 hard structures of /verif/golden/hard.json, written by the pinned package, re-read and judged).',
    'C03': ' Added: part multi-site (1e5 states with 2..4 occupied sites) and part golden (300 stored LJ structures re-read and judged); the oracle places the molecules with its own affine map (only LJ2::energy is taken from the package).',
    'C04': ' Part multi-site: 3e5 states with 2..4 occupied sites.',
    'C06': ' Values driven by two basis handles.',
    'C07': ' The deterministic part also runs at kT = 1e-300, 1e300 and +inf.',
    'C08': ' Added: part multi-site (400 chains on states with 2..4 occupied sites; a quarter in user-built groups of the square and hexagonal families, where only the cell length may change).',
    'C11': ' Part multi-site: 5e4 states with 1..6 occupied sites in the built-in groups and in user-built p4, p4mm, c1m1 and hexagonal-family groups (round trip + SVG).',
    'C18': ' A third of the ratio-path cases also pass a finishing temperature, which must be ignored.',
}

ADDED3 = {
    'C06': ' Step sizes of a few units in the last place (1e-17..1e-13 of the range).',
    'C08': ' A proposal holding a non-finite parameter cuts the stage, which is repeated with that many steps, so the returned state of a real run is what is judged.',
    'C09': ' About half of the CLI invocations (a function of arguments and thread count) find both output files already present with longer content from an earlier run.',
    'C10': ' About half of the CLI invocations find both output files already present with longer content from an earlier run with the same --outfile.',
    'C20': ' Part real-chains: 6e3 (quick) chains of 1..4 stages on real hard and Lennard-Jones states of every group (from_group and rescaled starts, step sizes 1e-3..8): no stage may panic on a state with a finite score.',
}

NOT_YET = {}

def main():
    props = [json.loads(l) for l in open(os.path.join(HERE, "properties.jsonl"))]
    checks = []
    na = []
    for p in props:
        pid = p["id"]
        if pid in CHECKS:
            tech, text, note, ref = CHECKS[pid]
            text = text + ADDED.get(pid, '') + ADDED2.get(pid, '') + ADDED3.get(pid, '')
            checks.append({
                "property_id": pid,
                "quick_cmd": f"./check {pid} quick",
                "thorough_cmd": f"./check {pid} thorough",
                "evidence_file": f"/verif/evidence/{pid}.json",
                "replay_cmd_template": f"./check {pid} --replay {{path}}",
                "engine": "pvh",
                "level_claimed": {"category": "exploration", "text": text, "design_ref": ref},
                "level_note": note,
                "technique": tech,
            })
        else:
            na.append({"property_id": pid, "reason": NOT_YET.get(pid, "check under construction in this session: not claimed until its generated check exists, has been seen to fail on a deliberate breakage and is silent on the unchanged tree")})
    manifest = {
        "version": 1,
        "setup_cmd": "./check --setup",
        "hooks": {
            "guard": "cargo feature verif-hooks",
            "enable": "cargo build --release --bin packing --features verif-hooks (done by ./check for the CLI-level properties); the library is used unhooked",
            "baseline_off_cmd": "cd /repo && cargo nextest run --workspace --no-fail-fast --offline",
            "source_commits": HOOK_COMMITS,
            "add_only": True,
        },
        "engines": [
            {"name": "pvh", "path": "/verif/harness", "serves_properties": sorted(CHECKS.keys()), "kind_free_text": "Rust binary: sharded proptest runners (seeded from VERIF_SEED), independent geometry/lattice/Metropolis oracles, scripted and probing State implementations, shrinking to JSON replay files"},
        ],
        "checks": checks,
        "not_applicable": na,
        "notes": "All checks are property-based tests / fuzzing (proptest; libFuzzer for the parser in the thorough tier). ./check exits 2 (inconclusive) on build failures and watchdog hits, never 1. Known findings live in /verif/KNOWN_FINDINGS.txt.",
    }
    if not na:
        del manifest["not_applicable"]
    json.dump(manifest, open(os.path.join(HERE, "MANIFEST.json"), "w"), indent=1)
    print("wrote MANIFEST.json with", len(checks), "checks,", len(na), "not applicable")

HOOK_COMMITS = ["ec12ea8"]
if __name__ == "__main__":
    main()

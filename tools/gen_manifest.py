#!/usr/bin/env python3
"""Regenerates /verif/MANIFEST.json from the table below (kept in one place so the manifest stays valid)."""
import json, os, sys

HERE = os.path.dirname(os.path.dirname(os.path.abspath(__file__)))

# id -> (technique, level text, level note, design ref)
CHECKS = {
    "C14": (
        "proptest-generated cells/placements vs an independent lattice model (differential + metamorphic linearity, multiset comparison of periodic images)",
        "Exploration: 4e5 (quick) / 2e7 (thorough) generated cells of all four families with arbitrary placements and shell counts 0..6, each compared with the harness's own lattice (M f, the full multiset of translates, |A x B|). Holds only on what was generated; the domain is a product of continuous ranges, so sampling plus boundary/special values is the honest level.",
        "Trusted: the harness's lattice formulas (geom.rs, unit-tested), serde deserialisation of Cell2 as the way to obtain arbitrary cells, f64 tolerance 1e-12 relative.",
        "DESIGN.md §2 C14",
    ),
}

NOT_YET = {}

def main():
    props = [json.loads(l) for l in open(os.path.join(HERE, "properties.jsonl"))]
    checks = []
    na = []
    for p in props:
        pid = p["id"]
        if pid in CHECKS:
            tech, text, note, ref = CHECKS[pid]
            checks.append({
                "property_id": pid,
                "quick_cmd": f"./check {pid} quick",
                "thorough_cmd": f"./check {pid} thorough",
                "evidence_file": f"/verif/evidence/{pid}.json",
                "replay_cmd_template": f"./check {pid} --replay {{path}}",
                "engine": "pvh",
                "level_claimed": {"category": "exploration", "text": text, "design_ref": ref},
                "level_note": note,
                "technique": tech,
            })
        else:
            na.append({"property_id": pid, "reason": NOT_YET.get(pid, "check under construction in this session: not claimed until its generated check exists, has been seen to fail on a deliberate breakage and is silent on the unchanged tree")})
    manifest = {
        "version": 1,
        "setup_cmd": "./check --setup",
        "hooks": {
            "guard": "cargo feature verif-hooks",
            "enable": "cargo build --release --bin packing --features verif-hooks (done by ./check for the CLI-level properties); the library is used unhooked",
            "baseline_off_cmd": "cd /repo && cargo test --workspace --no-fail-fast --offline",
            "source_commits": HOOK_COMMITS,
            "add_only": True,
        },
        "engines": [
            {"name": "pvh", "path": "/verif/harness", "serves_properties": sorted(CHECKS.keys()), "kind_free_text": "Rust binary: sharded proptest runners (seeded from VERIF_SEED), independent geometry/lattice/Metropolis oracles, scripted and probing State implementations, shrinking to JSON replay files"},
        ],
        "checks": checks,
        "not_applicable": na,
        "notes": "All checks are property-based tests / fuzzing (proptest; libFuzzer for the parser in the thorough tier). ./check exits 2 (inconclusive) on build failures and watchdog hits, never 1. Known findings live in /verif/KNOWN_FINDINGS.txt.",
    }
    if not na:
        del manifest["not_applicable"]
    json.dump(manifest, open(os.path.join(HERE, "MANIFEST.json"), "w"), indent=1)
    print("wrote MANIFEST.json with", len(checks), "checks,", len(na), "not applicable")

HOOK_COMMITS = []
if __name__ == "__main__":
    main()

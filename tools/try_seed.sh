#!/bin/bash
# tools/try_seed.sh <patch.diff> <out-dir> <ID> [<ID>...]
# applies a seeded change to /repo, runs the named quick checks, restores /repo and /verif/evidence,
# and moves the replay files produced by the mutant into <out-dir>/replays
set -u
PATCH="$(realpath "$1")"; OUT="$(realpath "$2")"; shift 2
cd /verif
if [ -n "$(git -C /repo status --porcelain --untracked-files=no)" ]; then echo "/repo is dirty; refusing"; exit 2; fi
git -C /repo apply "$PATCH" || { echo "patch does not apply"; exit 2; }
mkdir -p "$OUT/replays"
before=$(ls replays | sort)
for id in "$@"; do
  t0=$(date +%s)
  out=$(./check $id quick 2>&1); rc=$?
  t1=$(date +%s)
  echo "== $id rc=$rc $((t1-t0))s"
  echo "$out" | grep -E "^VIOLATION|message=|HARNESS|INCONCLUSIVE|^summary|KNOWN-FINDING" | cut -c1-600 | head -8
  echo "$out" > "$OUT/check-$id.log"
done
git -C /repo checkout -- .
git -C /verif checkout -- evidence
for f in $(ls replays | sort); do
  if ! echo "$before" | grep -qx "$f"; then mv "replays/$f" "$OUT/replays/"; fi
done

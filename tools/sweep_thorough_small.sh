#!/bin/bash
cd "$(dirname "$0")/.."
for i in $(seq -w 1 20); do
  id=C$i
  t0=$(date +%s.%N)
  out=$(./check $id thorough --scale ${1:-0.03} 2>&1)
  rc=$?
  t1=$(date +%s.%N)
  printf "%s rc=%d %.1fs %s\n" $id $rc $(echo "$t1 - $t0" | bc) "$(echo "$out" | grep -E '^summary' | cut -c1-140)"
  if [ $rc -ne 0 ]; then echo "$out" | grep -E "VIOLATION|HARNESS|INCONCLUSIVE|message" | cut -c1-400 | head -5; fi
done

#!/bin/bash
# a second sample of the thorough tier (VERIF_SEED=1); evidence files are restored afterwards
cd /verif
export VERIF_SEED=1
run() { t0=$(date +%s); out=$(./check "$@" 2>&1); rc=$?; t1=$(date +%s); echo "$* rc=$rc $((t1-t0))s $(echo "$out" | grep -E '^summary' | cut -c1-140)"; [ $rc -ne 0 ] && echo "$out" | grep -E "VIOLATION|message=|HARNESS|INCONCL" | cut -c1-400 | head -6; }
for id in C16 C18 C13 C14 C15 C17 C20 C12 C02 C03 C04 C11 C19 C10 C07 C08 C05 C06; do run $id thorough; done
git checkout -- evidence
echo THOROUGH-SEED1-DONE

#!/bin/bash
# thorough tier of the checks (parts) that changed since their last thorough run; one line per run
cd /verif
run() { t0=$(date +%s); out=$(./check "$@" 2>&1); rc=$?; t1=$(date +%s); echo "$* rc=$rc $((t1-t0))s $(echo "$out" | grep -E '^summary' | cut -c1-140)"; [ $rc -ne 0 ] && echo "$out" | grep -E "VIOLATION|message=|HARNESS|INCONCL" | cut -c1-400 | head -6; }
run C16 thorough
run C18 thorough
run C13 thorough
run C14 thorough
run C15 thorough
run C17 thorough
run C20 thorough
run C12 thorough
run C02 thorough
run C03 thorough
run C04 thorough
run C11 thorough
run C19 thorough
run C10 thorough
run C08 thorough
run C06 thorough
run C05 thorough
run C01 thorough --part multi-site
run C01 thorough --part aligned-contact
run C07 thorough --part boundary
run C07 thorough --part boundary-rare
run C07 thorough --part deterministic
run C09 thorough --part batches
echo THOROUGH-DONE

#!/bin/bash
# tools/bulk4.sh <ID>...  — copy the round-4 seeds of the given properties, confirm them (background, in their worktrees)
# and run the property's own quick check against each
cd /verif
for id in "$@"; do
  for v in 4a 4b; do
    src=/tmp/wt/$id/_seed$v
    [ -f $src/patch.diff ] || { echo "## $id-$v: no patch"; continue; }
    d=seeded/$id-$v
    mkdir -p $d; cp -r $src/* $d/
    git -C /repo apply --check $PWD/$d/patch.diff 2>/dev/null || { echo "## $id-$v: patch does not apply to HEAD"; continue; }
    echo "## $id-$v"
    tools/try_seed.sh $d/patch.diff $d $id 2>&1 | grep -E "^==|VIOLATION|message=" | cut -c1-330 | head -4
  done
  # confirmation of both seeds of this property, one after the other, in the background
  ( for v in 4a 4b; do [ -f /tmp/wt/$id/_seed$v/patch.diff ] && tools/confirm_seed.sh $id _seed$v > seeded/$id-$v/confirm.log 2>&1; done ) &
done
wait

#!/bin/bash
cd /verif
for seed in C05-2a C05-2b C06-2a C06-2b C07-2a C07-2b C08-2a C08-2b C18-2a C18-2b C19-2a C19-2b C20-2a; do
  mkdir -p target/matrix/$seed
  echo "##### seed $seed"
  tools/try_seed.sh seeded/$seed/patch.diff target/matrix/$seed C05 C06 C07 C18 C19 C20 2>&1 | grep -E "^== "
done
echo MATRIX-DONE

#!/usr/bin/env python3
"""Summarises seeded/benign/*/check-*.log into seeded/benign/RESULTS.md."""
import glob, os, re
HERE = os.path.dirname(os.path.dirname(os.path.abspath(__file__)))
rows = []
for d in sorted(glob.glob(os.path.join(HERE, "seeded", "benign", "*"))):
    if not os.path.isdir(d):
        continue
    logs = sorted(glob.glob(os.path.join(d, "check-*.log")))
    if not logs:
        continue
    silent, loud, incon = [], [], []
    for l in logs:
        cid = os.path.basename(l)[6:-4]
        t = open(l).read()
        if re.search(r"^VIOLATION", t, re.M):
            loud.append(cid)
        elif "INCONCLUSIVE" in t or "HARNESS-ERROR" in t:
            incon.append(cid)
        else:
            silent.append(cid)
    rows.append((os.path.basename(d), len(logs), silent, loud, incon))
out = ["# Behaviour-preserving changes: quick checks run against each (must all be silent)", ""]
for name, n, silent, loud, incon in rows:
    line = f"- **{name}**: {n} checks run, {len(silent)} silent"
    if loud:
        line += f", REPORTED by {', '.join(loud)}"
    if incon:
        line += f", inconclusive: {', '.join(incon)}"
    out.append(line)
out += ["", "(agent-shapes-a, a refactor of MolecularShape2::exposed_area, was written against the tree before the follow-up repair of that function and no longer applies; it is not included.)", ""]
open(os.path.join(HERE, "seeded", "benign", "RESULTS.md"), "w").write("\n".join(out))
print("\n".join(out))

#!/bin/bash
# cross matrix: every seeded change of a cluster against every check of that cluster (serial; touches /repo)
cd /verif
run_cluster() {
  local checks="$1"; shift
  for seed in "$@"; do
    if [ -f seeded/$seed/patch.diff ]; then
      mkdir -p target/matrix/$seed
      echo "##### seed $seed"
      tools/try_seed.sh seeded/$seed/patch.diff target/matrix/$seed $checks 2>&1 | grep -E "^== "
    fi
  done
}
run_cluster "C05 C06 C07 C08 C18 C19 C20" C05 C06 C07 C08 C18 C19 C20
run_cluster "C01 C02 C03 C04 C12 C13 C14 C15 C16 C17" C01 C02 C03 C04 C12 C13 C14 C15 C16 C17
run_cluster "C09 C10 C11 C20" C09 C10 C11
echo MATRIX-DONE

#!/bin/bash
# tools/confirm_seed.sh <ID> [<seed-subdir>]  — re-run an agent's three claims in its scratch worktree /tmp/wt/<ID>
ID="$1"; SUB="${2:-_seed}"
W=/tmp/wt/$ID
cd $W || exit 2
git checkout -q -- . ; rm -f tests/demo.rs
export CARGO_NET_OFFLINE=true
git apply $SUB/patch.diff || { echo "PATCH-DOES-NOT-APPLY"; exit 2; }
suite=$(cargo test --offline --lib --bins --tests 2>&1 | grep -E "^test result" | awk '{p+=$4; f+=$6} END {print p" passed "f" failed"}')
echo "suite with change: $suite"
cp $SUB/demo/demo.rs tests/demo.rs 2>/dev/null || { echo "no demo.rs (see notes.md)"; }
with=$(cargo test --offline --test demo 2>&1 | grep -E "^test result" | head -1)
echo "demo with change: $with"
git checkout -q -- .
without=$(cargo test --offline --test demo 2>&1 | grep -E "^test result" | head -1)
echo "demo without change: $without"
rm -f tests/demo.rs
git status --short | grep -v "_seed" | head -3

#!/bin/bash
# every behaviour-preserving change against every quick check (after round 3)
cd /verif
ALL="C01 C02 C03 C04 C05 C06 C07 C08 C09 C10 C11 C12 C13 C14 C15 C16 C17 C18 C19 C20"
for d in seeded/benign/B* seeded/benign/agent-*; do
  [ -f $d/patch.diff ] || continue
  n=$(basename $d)
  echo "##### $n"
  tools/try_seed.sh $d/patch.diff $d $ALL 2>&1 | grep -E "^== |VIOLATION" | cut -c1-200 | tr '\n' ' '
  echo
done
echo BENIGN-DONE

#!/bin/bash
# re-run every seeded (breaking) change against the quick check of the property it breaks, on the current harness
cd /verif
for d in seeded/*/; do
  n=$(basename $d)
  [ "$n" = benign ] && continue
  [ -f $d/patch.diff ] && [ -f $d/meta.json ] || continue
  p=$(python3 -c "import json;print(json.load(open('$d/meta.json'))['breaks_property'])")
  case $n in
    C19-2a|C19-4a) ids="$p C06" ;;
    C15-4a) ids="$p C17" ;;
    *) ids="$p" ;;
  esac
  git -C /repo apply --check $PWD/$d/patch.diff 2>/dev/null || { echo "## $n: PATCH-DOES-NOT-APPLY"; continue; }
  echo "## $n: $(tools/try_seed.sh $d/patch.diff $d $ids 2>&1 | grep -E '^== ' | tr '\n' ' ')"
done
echo RERUN-DONE

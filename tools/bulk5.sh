#!/bin/bash
# tools/bulk5.sh <ID>...  — copy the round-5 seed of the given properties, run the property's own quick check against it
# (tools/try_seed.sh: applies to /repo, reverts afterwards) and confirm the agent's three claims in its worktree (background)
cd /verif
for id in "$@"; do
  src=/tmp/wt/$id/_seed5
  [ -f $src/patch.diff ] || { echo "## $id-5: no patch"; continue; }
  d=seeded/$id-5
  mkdir -p $d; cp -r $src/* $d/
  git -C /repo apply --check $PWD/$d/patch.diff 2>/dev/null || { echo "## $id-5: patch does not apply to HEAD"; continue; }
  ( tools/confirm_seed.sh $id _seed5 > $d/confirm.log 2>&1 ) &
  echo "## $id-5"
  tools/try_seed.sh $d/patch.diff $d $id 2>&1 | grep -E "^==|VIOLATION|message=" | cut -c1-330 | head -4
done
wait
for id in "$@"; do echo "-- confirm $id-5:"; cat seeded/$id-5/confirm.log 2>/dev/null; done
